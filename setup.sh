#!/bin/bash
# Builds the overlay venv /verif/.venv offline: /venv's python + crosshair-tool (with z3-solver) from the
# local wheelhouse; a .pth makes /venv's site-packages (pedal's dependencies) and /repo importable.
set -e
cd "$(dirname "$0")"
V=.venv
if [ -x $V/bin/python ] && $V/bin/python -c "import crosshair, z3, pedal" 2>/dev/null; then
  exit 0
fi
LOCK=/tmp/.verif_venv.lock
exec 9>"$LOCK"
flock 9
if [ -x $V/bin/python ] && $V/bin/python -c "import crosshair, z3, pedal" 2>/dev/null; then
  exit 0
fi
rm -rf $V
/venv/bin/python -m venv $V
SP=$($V/bin/python -c "import sysconfig; print(sysconfig.get_paths()['purelib'])")
printf '/venv/lib/python3.12/site-packages\n/repo\n' > "$SP/overlay.pth"
PIP_NO_INDEX=1 $V/bin/pip install -q --no-index --find-links /opt/veriftools/wheels crosshair-tool >/dev/null
# cvc5 is optional (cross-check of E2 encodings in the thorough tier)
PIP_NO_INDEX=1 $V/bin/pip install -q --no-index --find-links /opt/veriftools/wheels cvc5 >/dev/null 2>&1 || true
$V/bin/python -c "import crosshair, z3, pedal; print('overlay ok', z3.get_version_string())"
