import shim
from fractions import Fraction
from pedal.core.report import Report
from pedal.core.feedback import Feedback
from pedal.resolvers import simple

SCORES = [None, 0.25, "+25%", "-0.1"]
VAL = {None: None, 0.25: Fraction(1, 4), "+25%": Fraction(1, 4), "-0.1": Fraction(-1, 10)}

def score2(s0a: bool, s0b: bool, neg0: bool, act0: bool, mut0: bool, uns0: bool,
           s1a: bool, s1b: bool, neg1: bool, act1: bool, mut1: bool, uns1: bool) -> bool:
    """
    post: _
    """
    r = Report()
    total = Fraction(0)
    specs = [(s0a, s0b, neg0, act0, mut0, uns0), (s1a, s1b, neg1, act1, mut1, uns1)]
    any_shown = False
    for i, (sa, sb, neg, act, mut, uns) in enumerate(specs):
        sc = SCORES[(2 if sa else 0) + (1 if sb else 0)]
        Feedback(label="f%d" % i, category="instructor", message="M", valence=-1 if neg else 1,
                 activate=act, muted=mut, unscored=uns, score=sc, report=r)
        if sc is not None and not uns:
            if (not neg and act) or (neg and not act):
                total += VAL[sc]
        if act and not mut:
            any_shown = True
    final = simple.resolve(r)
    if not any_shown:
        return final.score == 1
    return final.score == round(float(total), 2)
