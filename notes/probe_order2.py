import shim
from pedal.core.report import Report
from pedal.core.feedback import Feedback
from pedal.resolvers import simple

CATS = ["syntax", "runtime", "Instructor", "system", "weird", None]
PRIOS = [None, "high", "low", "student", "parser", "lowest"]
RANK = ["highest","syntax","mistakes","instructor","algorithmic","runtime","student","specification","positive","instructions","uncategorized","lowest"]
ALIAS = {'parser':'syntax','verifier':'syntax','instructor':'instructor','analyzer':'algorithmic'}
def spec_key(cat, prio):
    c = cat.lower() if cat is not None else "uncategorized"
    v = RANK.index(c) if c in RANK else len(RANK)
    p = "medium"
    if prio is not None:
        p = ALIAS.get(prio.lower(), prio.lower())
    if p in RANK:
        v = RANK.index(p); p = "medium"
    return v*10 + {"low":7,"medium":5,"high":3}.get(p,1)

def order2(c0:int,p0:int,a0:bool,c1:int,p1:int,a1:bool) -> bool:
    """
    pre: 0 <= c0 < 5 and 0 <= c1 < 5 and 0 <= p0 < 6 and 0 <= p1 < 6
    post: _
    """
    r = Report()
    fs = [Feedback(label="f0", category=CATS[c0], priority=PRIOS[p0], activate=a0, message="M0", report=r),
          Feedback(label="f1", category=CATS[c1], priority=PRIOS[p1], activate=a1, message="M1", report=r)]
    final = simple.resolve(r)
    elig = sorted((spec_key(CATS[c], PRIOS[p]), i) for i,(c,p,a) in enumerate([(c0,p0,a0),(c1,p1,a1)]) if a)
    if not elig:
        return final.label == "set_correct_no_errors" and final.title == "Complete"
    return final.label == "f%d" % elig[0][1] and final.message == "M%d" % elig[0][1]
