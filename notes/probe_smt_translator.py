"""Prototype: translate small pure Python functions (from their AST) into one z3 term."""
import ast, inspect, textwrap, z3

class Unsupported(Exception): pass

class OptStr:
    """Optional ASCII string, possibly lowered."""
    def __init__(self, is_none, s, lowered=False):
        self.is_none, self.s, self.lowered = is_none, s, lowered

def ci_re(const):
    parts = [z3.Union(z3.Re(c.lower()), z3.Re(c.upper())) if c.isalpha() else z3.Re(c) for c in const]
    if not parts: return z3.Re("")
    return parts[0] if len(parts) == 1 else z3.Concat(*parts)

def str_eq(a, b):
    """a: OptStr|str, b: OptStr|str -> z3 Bool"""
    if isinstance(a, str) and isinstance(b, str): return z3.BoolVal(a == b)
    if isinstance(a, str): a, b = b, a
    if isinstance(b, str):
        if a.lowered:
            if b != b.lower(): return z3.BoolVal(False)
            return z3.And(z3.Not(a.is_none), z3.InRe(a.s, ci_re(b)))
        return z3.And(z3.Not(a.is_none), a.s == z3.StringVal(b))
    raise Unsupported("sym==sym strings")

class Obj:
    def __init__(self, attrs): self.attrs = attrs

class Interp:
    def __init__(self, module):
        self.module = module
    def call(self, fn, args):
        src = textwrap.dedent(inspect.getsource(fn))
        fdef = ast.parse(src).body[0]
        env = dict(zip([a.arg for a in fdef.args.args], args))
        rets = []  # (guard, value)
        self.block(fdef.body, env, z3.BoolVal(True), rets, fn.__globals__)
        return self.merge(rets)
    def merge(self, rets):
        assert rets, "no return"
        val = rets[-1][1]
        for g, v in reversed(rets[:-1]):
            val = self.ite(g, v, val)
        return val
    def ite(self, g, a, b):
        if isinstance(a, (int, float)) : a = z3.RealVal(a)
        if isinstance(b, (int, float)) : b = z3.RealVal(b)
        if isinstance(a, bool) or isinstance(b, bool): raise Unsupported("bool ite")
        if z3.is_expr(a) and z3.is_expr(b):
            if a.sort() != b.sort():
                a = z3.ToReal(a) if a.sort() == z3.IntSort() else a
                b = z3.ToReal(b) if b.sort() == z3.IntSort() else b
            return z3.If(g, a, b)
        if isinstance(a, (OptStr, str)) and isinstance(b, (OptStr, str)):
            return self.ite_str(g, a, b)
        raise Unsupported(f"ite {type(a)} {type(b)}")
    def ite_str(self, g, a, b):
        def parts(x):
            if isinstance(x, str): return z3.BoolVal(False), z3.StringVal(x), None
            return x.is_none, x.s, x.lowered
        an, as_, al = parts(a); bn, bs, bl = parts(b)
        # a constant is "lowered-compatible" if it is already lower-case
        low = bool(al or bl)
        if low:
            for x, xl in ((a, al), (b, bl)):
                if isinstance(x, str) and x != x.lower(): raise Unsupported("mixed")
                if isinstance(x, OptStr) and not xl: raise Unsupported("mixed lowered")
        return OptStr(z3.If(g, an, bn), z3.If(g, as_, bs), low)
    # returns True if block definitely returned on all paths (not tracked precisely; use guards)
    def block(self, stmts, env, guard, rets, glob):
        """Executes statements under guard; returns the guard under which execution continues."""
        for st in stmts:
            if isinstance(st, ast.Expr) and isinstance(st.value, ast.Constant): continue  # docstring
            if isinstance(st, ast.Return):
                rets.append((guard, self.expr(st.value, env, glob)))
                return z3.BoolVal(False)
            elif isinstance(st, ast.Assign) and len(st.targets) == 1 and isinstance(st.targets[0], ast.Name):
                new = self.expr(st.value, env, glob)
                name = st.targets[0].id
                env[name] = new if name not in env or z3.is_true(z3.simplify(guard)) else self.ite(guard, new, env[name])
            elif isinstance(st, ast.If):
                c = self.truth(self.expr(st.test, env, glob))
                e1, e2 = dict(env), dict(env)
                g1 = self.block(st.body, e1, z3.And(guard, c), rets, glob)
                g2 = self.block(st.orelse, e2, z3.And(guard, z3.Not(c)), rets, glob)
                for k in set(e1) | set(e2):
                    if k in e1 and k in e2:
                        env[k] = e1[k] if e1[k] is e2[k] else self.ite(c, e1[k], e2[k])
                    else:
                        env[k] = e1.get(k, e2.get(k))
                guard = z3.simplify(z3.Or(g1, g2))
            else:
                raise Unsupported(ast.dump(st)[:80])
        return guard
    def truth(self, v):
        if isinstance(v, bool): return z3.BoolVal(v)
        if z3.is_expr(v) and v.sort() == z3.BoolSort(): return v
        raise Unsupported(f"truth of {v!r}")
    def expr(self, e, env, glob):
        if isinstance(e, ast.Constant): return e.value
        if isinstance(e, ast.Name):
            if e.id in env: return env[e.id]
            if e.id in glob: return glob[e.id]
            import builtins
            if hasattr(builtins, e.id): return getattr(builtins, e.id)
            raise Unsupported("name " + e.id)
        if isinstance(e, ast.Attribute):
            base = self.expr(e.value, env, glob)
            if isinstance(base, Obj): return base.attrs[e.attr]
            return getattr(base, e.attr)   # concrete module/class attribute (real object)
        if isinstance(e, ast.Compare) and len(e.ops) == 1:
            l = self.expr(e.left, env, glob); r = self.expr(e.comparators[0], env, glob); op = e.ops[0]
            if isinstance(op, (ast.Is, ast.IsNot)) and r is None:
                res = l.is_none if isinstance(l, OptStr) else z3.BoolVal(l is None)
                return z3.Not(res) if isinstance(op, ast.IsNot) else res
            if isinstance(op, (ast.In, ast.NotIn)):
                if isinstance(r, (list, tuple, dict)):
                    res = z3.Or(*[self.eq(l, k) for k in r]) if len(r) else z3.BoolVal(False)
                    return z3.Not(res) if isinstance(op, ast.NotIn) else res
                raise Unsupported("in")
            if isinstance(op, (ast.Eq, ast.NotEq)):
                res = self.eq(l, r)
                return z3.Not(res) if isinstance(op, ast.NotEq) else res
            num = {ast.Lt: lambda a, b: a < b, ast.LtE: lambda a, b: a <= b, ast.Gt: lambda a, b: a > b, ast.GtE: lambda a, b: a >= b}
            if type(op) in num: return num[type(op)](l, r)
            raise Unsupported("cmp")
        if isinstance(e, ast.BoolOp):
            vs = [self.truth(self.expr(v, env, glob)) for v in e.values]
            return z3.And(*vs) if isinstance(e.op, ast.And) else z3.Or(*vs)
        if isinstance(e, ast.UnaryOp) and isinstance(e.op, ast.Not):
            return z3.Not(self.truth(self.expr(e.operand, env, glob)))
        if isinstance(e, ast.BinOp):
            l = self.expr(e.left, env, glob); r = self.expr(e.right, env, glob)
            ops = {ast.Add: lambda a, b: a + b, ast.Sub: lambda a, b: a - b, ast.Mult: lambda a, b: a * b}
            if type(e.op) in ops:
                if isinstance(l, float): l = z3.RealVal(l)
                if isinstance(r, float): r = z3.RealVal(r)
                return ops[type(e.op)](l, r)
            raise Unsupported("binop")
        if isinstance(e, ast.Call):
            f = e.func
            if isinstance(f, ast.Attribute):
                base = self.expr(f.value, env, glob)
                args = [self.expr(a, env, glob) for a in e.args]
                if f.attr == "lower" and isinstance(base, OptStr): return OptStr(base.is_none, base.s, True)
                if f.attr == "lower" and isinstance(base, str): return base.lower()
                if f.attr == "index" and isinstance(base, list):
                    out = z3.IntVal(-1)
                    for i in reversed(range(len(base))): out = z3.If(self.eq(args[0], base[i]), i, out)
                    return out
                if f.attr == "get" and isinstance(base, dict):
                    out = args[1]
                    for k, v in reversed(list(base.items())): out = self.ite(self.eq(args[0], k), v, out)
                    return out
                raise Unsupported("method " + f.attr)
            fn = self.expr(f, env, glob)
            args = [self.expr(a, env, glob) for a in e.args]
            if fn is len: return len(args[0])
            if inspect.isfunction(fn): return self.call(fn, args)
            raise Unsupported("call")
        raise Unsupported(ast.dump(e)[:80])
    def eq(self, a, b):
        if isinstance(a, (OptStr, str)) or isinstance(b, (OptStr, str)):
            if a is None or b is None:
                o = a if b is None else b
                return o.is_none if isinstance(o, OptStr) else z3.BoolVal(o is None)
            return str_eq(a, b)
        return a == b

if __name__ == "__main__":
    import time
    from pedal.resolvers import simple
    cat = OptStr(z3.Bool("cat_none"), z3.String("cat")); pr = OptStr(z3.Bool("pr_none"), z3.String("pr"))
    t = time.time()
    key = Interp(simple).call(simple.by_priority, [Obj({"category": cat, "priority": pr})])
    print("translated in", round(time.time() - t, 3), "s; sort", key.sort())
    s = z3.Solver()
    # sanity: syntax beats runtime, any case
    s.add(z3.Not(cat.is_none), z3.InRe(cat.s, ci_re("runtime")), pr.is_none, key <= 2)
    print("runtime<=2 ?", s.check())
    s = z3.Solver(); s.add(z3.Not(cat.is_none), z3.InRe(cat.s, ci_re("runtime")), pr.is_none); s.check()
    print("key for runtime:", s.model().eval(key))
    s = z3.Solver(); s.add(cat.is_none, z3.Not(pr.is_none), pr.s == "Parser"); s.check(); print("None/Parser:", s.model().eval(key))
    for c, p in [("runtime", None), (None, "Parser"), ("zzz", "low"), ("Syntax", "HIGH"), ("student", "weird")]:
        class F: category = c; priority = p
        print(c, p, simple.by_priority(F))
