import shim
from typing import List
from pedal.core.report import Report
from pedal.core.submission import Submission
from pedal.sandbox.sandbox import Sandbox
from pedal.sandbox.data import SandboxContext
import pedal.sandbox

def fifo(q: List[str], reads: int, clear_first: bool, extra: str) -> bool:
    """
    pre: len(q) <= 2 and all(len(s) <= 1 for s in q) and 0 <= reads <= 3 and len(extra) <= 1
    post: _
    """
    r = Report(); r.contextualize(Submission({"answer.py": ""}, "answer.py"))
    sb = Sandbox(report=r)
    sb.set_input(list(q))
    if clear_first:
        sb.clear_input()
    sb.set_input(extra, clear=False)
    expected_queue = ([] if clear_first else list(q)) + [extra]
    ctx = SandboxContext(0, "", "answer.py", "run", None, [], "", None, r.submission)
    sb._context.append(ctx)
    tracker = sb._track_inputs(ctx.inputs)
    import io, contextlib
    buf = io.StringIO()
    got = []
    with contextlib.redirect_stdout(buf):
        for i in range(reads):
            got.append(tracker("p"))
    exp = [(expected_queue[i] if i < len(expected_queue) else "0") for i in range(reads)]
    return got == exp and ctx.inputs == exp and buf.getvalue() == "p\n" * reads and sb.inputs == expected_queue[reads:]
