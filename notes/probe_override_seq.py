import shim
from pedal.core.report import Report
from pedal.core.feedback import Feedback
from pedal.core.commands import explain, gently

ORIG = {(explain, "title"): explain.title, (explain, "priority"): explain.priority, (gently, "title"): gently.title, (gently, "priority"): gently.priority}

def seq(o0a: bool, o0b: bool, o0c: bool, o1a: bool, o1b: bool, o1c: bool, o2a: bool, o2b: bool, o2c: bool, v: str) -> bool:
    """
    pre: len(v) <= 1
    post: _
    """
    r = Report()
    ops = [(o0a, o0b, o0c), (o1a, o1b, o1c), (o2a, o2b, o2c)]
    cur = dict(ORIG)
    ok = True
    for a, b, c in ops:
        if a and b:   # clear
            r.clear()
            cur = dict(ORIG)
        else:
            cls = explain if a else gently
            field = "title" if b else "priority"
            val = v if c else "Z"
            cls.override(report=r, **{field: val})
            cur[(cls, field)] = val
        for (k_cls, k_field), exp in cur.items():
            ok = ok and getattr(k_cls, k_field) == exp
    r.clear()
    for (k_cls, k_field), exp in ORIG.items():
        ok = ok and getattr(k_cls, k_field) == exp
    return ok and not explain._override_backups and not gently._override_backups
