import sys, time
from pedal.core.report import Report
from pedal.core.submission import Submission
import pedal.sandbox.sandbox as SB

class MyBase(BaseException): pass
EXCS = [None, ValueError, SystemExit, KeyboardInterrupt, GeneratorExit, MyBase]
state = {"mode": 0, "text": ""}
def fake_exec(code, data):
    sys.stdout.write(state["text"])
    E = EXCS[state["mode"]]
    if E is not None:
        raise E("boom")
SB.exec = fake_exec

def restored(b0: bool, b1: bool, b2: bool) -> bool:
    """
    pre: True
    post: _
    """
    r = Report()
    r.contextualize(Submission({"answer.py": "pass"}, "answer.py"))
    sb = SB.Sandbox(report=r)
    mode = (4 if b2 else 0) + (2 if b1 else 0) + (1 if b0 else 0)
    if mode >= 6:
        return True
    text = "hi"
    state["mode"] = mode; state["text"] = text
    so, sl, mods = sys.stdout, time.sleep, set(sys.modules)
    try:
        sb.run()
    except BaseException as e:
        if type(e).__module__.startswith("crosshair"):
            raise
    ok = sys.stdout is so and time.sleep is sl and not sb._current_patches and not sb._current_stdout
    # cleanup to not poison following paths
    while sb._current_patches: sb._stop_patches()
    sys.stdout = so
    return ok and sb.raw_output == text
