import ast as real_ast
from typing import Optional
from pedal.core.report import Report
from pedal.core.submission import Submission
import pedal.source.source as S
import pedal.source  # ensure tool registered

class Shim:
    def __init__(self): self.exc = None
    def parse(self, code, filename="<unknown>"):
        if code == "" or self.exc is None:
            return real_ast.parse(code, filename)
        raise self.exc
shim = Shim()
S.ast = shim

def never_raises(lineno: Optional[int], offset: Optional[int], indent: bool, off: int, msg: str) -> bool:
    """
    pre: (lineno is None or 1 <= lineno <= 3) and 0 <= off <= 2 and len(msg) <= 2
    post: _
    """
    r = Report()
    code = "a\nb\nc"
    sub = Submission({"answer.py": code}, "answer.py")
    r.contextualize(sub)
    sub.set_line_offset(off)
    cls = IndentationError if indent else SyntaxError
    e = cls(msg, ("answer.py", lineno, offset, None))
    shim.exc = e
    try:
        ok = S.verify(code, "answer.py", report=r)
    finally:
        shim.exc = None
    fbs = [f for f in r.feedback if f.category == "syntax"]
    if ok is not False or len(fbs) != 1:
        return False
    if lineno is None:
        return True
    return fbs[0].location.line == lineno + off
