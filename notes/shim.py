from pedal.core.formatting import FeedbackFieldWrapper
_orig = FeedbackFieldWrapper.__getattr__
def _safe(self, key):
    if key in ('key', 'value', 'formatter') or (key.startswith('__') and key.endswith('__')):
        raise AttributeError(key)
    return _orig(self, key)
FeedbackFieldWrapper.__getattr__ = _safe
