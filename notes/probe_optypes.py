import shim, ast, operator
from typing import Union, List, Tuple
from crosshair import realize
from pedal.types.operations import apply_binary_operation
from pedal.types.normalize import get_pedal_type_from_value
from pedal.types.new_types import ImpossibleType, Type, is_subtype

OPS = [(ast.Add, operator.add), (ast.Sub, operator.sub), (ast.Mult, operator.mul), (ast.Div, operator.truediv),
       (ast.FloorDiv, operator.floordiv), (ast.Mod, operator.mod), (ast.Pow, operator.pow)]
Val = Union[int, float, str, List[int], Tuple[int, int]]

def binop(a: Val, b: Val, oi: int) -> bool:
    """
    pre: 0 <= oi < 7
    pre: not isinstance(a, int) or -3 <= a <= 3
    pre: not isinstance(b, int) or -3 <= b <= 3
    pre: not isinstance(a, float) or a in (0.5, 2.0, -1.5)
    pre: not isinstance(b, float) or b in (0.5, 2.0, -1.5)
    pre: not isinstance(a, str) or len(a) <= 1
    pre: not isinstance(b, str) or len(b) <= 1
    pre: not isinstance(a, list) or len(a) <= 1
    pre: not isinstance(b, list) or len(b) <= 1
    post: _
    """
    a = realize(a); b = realize(b)
    if isinstance(a, list): a = [realize(x) for x in a]
    if isinstance(b, list): b = [realize(x) for x in b]
    if isinstance(a, tuple): a = tuple(realize(x) for x in a)
    if isinstance(b, tuple): b = tuple(realize(x) for x in b)
    node, fn = OPS[oi]
    res_t = apply_binary_operation(node(), get_pedal_type_from_value(a), get_pedal_type_from_value(b))
    try:
        res = fn(a, b)
    except TypeError:
        return isinstance(res_t, ImpossibleType)
    except (ZeroDivisionError, OverflowError, ValueError):
        return True
    if isinstance(res_t, ImpossibleType):
        return True
    if not isinstance(res_t, Type):
        return False
    return is_subtype(get_pedal_type_from_value(res), res_t)
