import shim
import ast
from pedal.core.report import Report
from pedal.core.submission import Submission
from pedal.tifa.tifa_visitor import Tifa
from pedal.tifa.tifa_core import TifaAnalysis
from pedal.tifa.state import State
from pedal.types.new_types import IntType
import pedal.tifa

V3 = ["yes", "no", "maybe"]
def join(a, b): return a if a == b else "maybe"

CODE = "if c:\n    x = 1\nelse:\n    pass\nprint(x)\n"
TREE = ast.parse(CODE)

def step(present: bool, s: int, r: int) -> bool:
    """
    pre: 0 <= s < 3 and 0 <= r < 3
    post: _
    """
    rep = Report()
    rep.contextualize(Submission({"answer.py": CODE}, "answer.py"))
    t = Tifa(report=rep)
    t.analysis = TifaAnalysis()
    t.line_offset = 0
    t.reset()
    t.name_map[0]["0/c"] = State("c", [], IntType(), "store", None, read="no", set="yes", over="no")
    if present:
        t.name_map[0]["0/x"] = State("x", [], IntType(), "store", None, read=V3[r], set=V3[s], over="no")
    t.node_chain.append(TREE)
    for stmt in TREE.body:
        t.visit(stmt)
    issues = t.analysis.issues
    pre_set = V3[s] if present else "no"
    post_set = join("yes", pre_set)
    init = len(issues.get("initialization_problem", [])) + len(issues.get("read_out_of_scope", []))
    poss = len(issues.get("possible_initialization_problem", []))
    if post_set == "yes":
        return init == 0 and poss == 0
    if post_set == "maybe":
        return poss == 1 and init == 0
    return False

if __name__ == "__main__":
    import traceback, sys
    sys.setrecursionlimit(200)
    try:
        print(step(False, 0, 0), step(True,0,0), step(True,1,0), step(True,2,1))
    except RecursionError:
        traceback.print_exc(limit=-12)
