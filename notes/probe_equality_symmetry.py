from typing import Union
from pedal.utilities.comparisons import equality_test
def sym(a: Union[int, float], b: Union[int, float]) -> bool:
    """
    post: _
    """
    return equality_test(a, b, False, 0.001) == equality_test(b, a, False, 0.001)
