from pedal.core.report import Report
from pedal.core.feedback import Feedback
from pedal.core.final_feedback import FinalFeedback, set_correct_no_errors
import pedal.resolvers.simple

CATS = ["runtime", "system", "instructor", "Runtime"]
KINDS = ["Compliment", "Instructional", "Mistake"]

class FB(Feedback):
    def __init__(self):
        pass

def step(ci:int, ki:int, lab_supp:bool, triggered:bool, muted:bool, has_else:bool, has_msg:bool,
         correct_i:int, pre_has_msg:bool, pre_correct_i:int, cat_supp:bool, catlab_supp:bool) -> bool:
    """
    pre: 0 <= ci < 4 and 0 <= ki < 3 and 0 <= correct_i < 3 and 0 <= pre_correct_i < 3
    post: _
    """
    r = Report()
    if cat_supp: r.suppress("runtime")
    if catlab_supp: r.suppress("instructor", "lab")
    if lab_supp: r.suppress(label="lab")
    f = FB()
    f.category = CATS[ci]; f.kind = KINDS[ki]; f.label = "lab"; f.title="T"
    f._met_condition = triggered; f.muted = muted
    f.else_message = "E" if has_else else None
    f.message = "M" if has_msg else None
    f.correct = [None, True, False][correct_i]
    f.score = None; f.unscored = False; f.fields = {}; f.valence = -1
    final = set_correct_no_errors(r)
    if pre_has_msg:
        final.message = "P"; final.title = "PT"; final.label = "pl"; final.category = "pc"
    final.correct = final.success = [None, True, False][pre_correct_i]
    pre_correct = final.correct
    final.merge(f)
    suppressed = (cat_supp and f.category.lower() == "runtime") or (catlab_supp and f.category.lower()=="instructor") or lab_supp
    eligible = (not suppressed) and triggered and not muted and f.kind != "Compliment"
    if not eligible:
        ok = (final.message == ("P" if pre_has_msg else None)) and final.correct is pre_correct
        return ok
    exp_msg = "P" if pre_has_msg else ("M" if has_msg else None)
    return final.message == exp_msg and bool(final.correct) == (bool(f.correct) and bool(pre_correct))
