import shim, ast
from typing import Union, Optional
from pedal.core.report import Report
from pedal.cait.stretchy_tree_matching import StretchyTreeMatcher

Const = Union[int, bool, float, str, None]

def build(n1: str, k):
    tree = ast.parse("a = 1")
    tree.body[0].targets[0].id = n1
    tree.body[0].value.value = k
    return tree

def witness_ok(pat_const, k) -> bool:
    return type(pat_const) is type(k) and pat_const == k

def sound_none(n1: str, k: Const) -> bool:
    """
    pre: 1 <= len(n1) <= 2
    pre: not isinstance(k, str) or len(k) <= 1
    post: _
    """
    r = Report()
    ms = StretchyTreeMatcher("_v_ = None", report=r).find_matches(build(n1, k))
    return (not ms) or witness_ok(None, k)

def sound_one(n1: str, k: Const) -> bool:
    """
    pre: 1 <= len(n1) <= 2
    pre: not isinstance(k, str) or len(k) <= 1
    post: _
    """
    r = Report()
    ms = StretchyTreeMatcher("_v_ = 1", report=r).find_matches(build(n1, k))
    return (not ms) or witness_ok(1, k)
