import shim
from typing import List
from pedal.core.report import Report
from pedal.core.submission import Submission
import pedal.source
import pedal.source.sections as SEC
from pedal.source.sections import separate_into_sections, next_section, stop_sections
from pedal.source.constants import TOOL_NAME

class ReShim:
    MULTILINE = 8
    def __init__(self): self.parts = None
    def split(self, pattern, text, flags=0):
        return list(self.parts)
reshim = ReShim()
SEC.re = reshim

def walk(c0: str, m1: str, c1: str, m2: str, c2: str, independent: bool, steps: int) -> bool:
    """
    pre: len(c0) <= 2 and len(c1) <= 2 and len(c2) <= 2 and len(m1) <= 1 and len(m2) <= 1 and 0 <= steps <= 3
    post: _
    """
    parts = [c0, m1, c1, m2, c2]
    whole = "".join(parts)
    r = Report()
    r.contextualize(Submission({"answer.py": whole}, "answer.py"))
    reshim.parts = parts
    separate_into_sections(independent=independent, report=r)
    ok = r.submission.main_code == c0
    for k in range(1, steps + 1):
        n_before = len(r.feedback)
        next_section(report=r)
        if k <= 2:
            if independent:
                exp = parts[2 * k]
                off = "".join(parts[:2 * k]).count("\n")
                ok = ok and r.submission.main_code == exp and r.submission.line_offsets.get("answer.py", 0) == off
            else:
                ok = ok and r.submission.main_code == "".join(parts[:2 * k + 1]) and r.submission.line_offsets.get("answer.py", 0) == 0
        else:
            ok = ok and len(r.feedback) == n_before + 1 and r.feedback[-1].label == "not_enough_sections"
    stop_sections(report=r)
    return ok and r.submission.main_code == whole
