import ast
from pedal.core.report import Report
from pedal.cait.stretchy_tree_matching import StretchyTreeMatcher
from pedal.cait.cait_node import CaitNode

def build_student(n1: str, n2: str, k: int):
    # n1 = n2 + k
    tree = ast.parse("a = b + 1")
    assign = tree.body[0]
    assign.targets[0].id = n1
    assign.value.left.id = n2
    assign.value.right.value = k
    return tree

def sound(n1: str, n2: str, k: int) -> bool:
    """
    pre: len(n1) <= 2 and len(n2) <= 2
    post: _
    """
    r = Report()
    student = build_student(n1, n2, k)
    m = StretchyTreeMatcher("_v_ = _v_ + 1", report=r)
    matches = m.find_matches(student)
    if matches:
        return n1 == n2 and k == 1
    return True

def complete(n1: str, k: int) -> bool:
    """
    pre: len(n1) <= 2
    post: _
    """
    r = Report()
    student = build_student(n1, n1, k)
    m = StretchyTreeMatcher("_v_ = _v_ + ___", report=r)
    matches = m.find_matches(student)
    return len(matches) >= 1
