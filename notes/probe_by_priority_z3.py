import z3, time
from pedal.core.feedback import DEFAULT_CATEGORY_PRIORITY as IMPL
from pedal.core.feedback_category import FeedbackCategory
ALIAS = FeedbackCategory.ALIASES
SPEC = ["highest","syntax","mistakes","instructor","algorithmic","runtime","student","specification","positive","instructions","uncategorized","lowest"]
SPEC_ALIAS = {'parser':'syntax','verifier':'syntax','instructor':'instructor','analyzer':'algorithmic'}

def ci(const):
    parts = []
    for ch in const:
        if ch.isalpha():
            parts.append(z3.Union(z3.Re(ch.lower()), z3.Re(ch.upper())))
        else:
            parts.append(z3.Re(ch))
    return z3.Concat(*parts) if len(parts) > 1 else parts[0]
def lower_eq(s, const):
    if const != const.lower(): return z3.BoolVal(False)
    return z3.InRe(s, ci(const))

def key(cat_none, cat, pr_none, pr, table, alias):
    # value from category
    def idx(s_eq):  # s_eq: function const->Bool
        e = z3.IntVal(len(table))
        for i in reversed(range(len(table))):
            e = z3.If(s_eq(table[i]), i, e)
        return e
    cat_eq = lambda c: z3.If(cat_none, z3.BoolVal(c == "uncategorized"), lower_eq(cat, c))
    value = idx(cat_eq)
    # priority: alias
    def pr_eq(c):
        # priority after alias == c
        direct = z3.And(lower_eq(pr, c), z3.Not(z3.Or(*[lower_eq(pr, a) for a in alias])))
        via = z3.Or(*[lower_eq(pr, a) for a, t in alias.items() if t == c]) if any(t == c for t in alias.values()) else z3.BoolVal(False)
        return z3.If(pr_none, z3.BoolVal(c == "medium"), z3.Or(direct, via))
    in_table = z3.Or(*[pr_eq(c) for c in table])
    value2 = z3.If(in_table, idx(pr_eq), value)
    off = z3.If(in_table, 5, z3.If(pr_eq("low"), 7, z3.If(pr_eq("medium"), 5, z3.If(pr_eq("high"), 3, 1))))
    return value2 * 10 + off

cat, pr = z3.Strings("cat pr")
cn, pn = z3.Bools("cn pn")
s = z3.Solver()
s.add(key(cn, cat, pn, pr, list(IMPL), ALIAS) != key(cn, cat, pn, pr, SPEC, SPEC_ALIAS))
t = time.time(); print(s.check(), time.time() - t)
# mutant: swap two
M = list(IMPL); M[4], M[5] = M[5], M[4]
s = z3.Solver()
s.add(key(cn, cat, pn, pr, M, ALIAS) != key(cn, cat, pn, pr, SPEC, SPEC_ALIAS))
t = time.time(); r = s.check(); print(r, time.time() - t)
if str(r) == "sat": print(s.model())
