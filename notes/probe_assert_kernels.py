import shim
from typing import Union, List, Tuple, Optional
from pedal.assertions.runtime import assert_less, assert_greater_equal, assert_in, assert_not_in, assert_equal, assert_not_equal, assert_length_equal
from pedal.assertions.feedbacks import SandboxedValue
from pedal.sandbox.result import SandboxResult
from pedal.core.report import Report
from pedal.core.submission import Submission
from pedal.sandbox.sandbox import Sandbox
import pedal.sandbox, pedal.assertions

_r = Report(); _r.contextualize(Submission({"answer.py": "x=1"}, "answer.py"))
_sb = Sandbox(report=_r)
_sb.run("x = 1", filename="answer.py")

from crosshair.tracers import NoTracing
def wrap(v, w):
    if w:
        try:
            with NoTracing():
                return SandboxResult(v, 0, _sb)
        except Exception:
            return SandboxResult(v, 0, _sb)
    return v

Num = Union[int, float]
def less_kernel(a: Num, b: Num, wa: bool, wb: bool) -> bool:
    """
    post: _
    """
    c = assert_less.condition(None, SandboxedValue(wrap(a, wa)), SandboxedValue(wrap(b, wb)))
    d = assert_greater_equal.condition(None, SandboxedValue(wrap(a, wa)), SandboxedValue(wrap(b, wb)))
    return bool(c) == (not (a < b)) and bool(c) != bool(d)

def in_kernel(n: int, h: List[int], wn: bool, wh: bool) -> bool:
    """
    pre: len(h) <= 3
    post: _
    """
    c = assert_in.condition(None, SandboxedValue(wrap(n, wn)), SandboxedValue(wrap(h, wh)))
    d = assert_not_in.condition(None, SandboxedValue(wrap(n, wn)), SandboxedValue(wrap(h, wh)))
    return bool(c) == (n not in h) and bool(c) != bool(d)

def in_str_kernel(n: str, h: str, wn: bool, wh: bool) -> bool:
    """
    pre: len(h) <= 3 and len(n) <= 2
    post: _
    """
    c = assert_in.condition(None, SandboxedValue(wrap(n, wn)), SandboxedValue(wrap(h, wh)))
    return bool(c) == (n not in h)
