from typing import List
from pedal.sandbox.sandbox import Sandbox

def fixed_append_output(self, raw_output, context):
    self.raw_output += raw_output
    context.output = raw_output
    if raw_output:
        lines = raw_output.rstrip().split("\n")
        lines = [line.rstrip() for line in lines]
        self.output.extend(lines)

class Ctx: 
    output = ""

def spec_lines(raw: str) -> List[str]:
    if not raw:
        return []
    # independent: strip trailing whitespace manually
    WS = " \t\n\r\x0b\x0c\x1c\x1d\x1e\x1f\x85\xa0"
    end = len(raw)
    out = []
    cur = ""
    body = raw
    while body and body[-1].isspace():
        body = body[:-1]
    for ch in body:
        if ch == "\n":
            out.append(cur); cur = ""
        else:
            cur += ch
    out.append(cur)
    res = []
    for l in out:
        while l and l[-1].isspace():
            l = l[:-1]
        res.append(l)
    return res

def step(prev_raw: str, new: str) -> bool:
    """
    pre: len(prev_raw) <= 2 and len(new) <= 3
    post: _
    """
    sb = Sandbox.__new__(Sandbox)
    sb.raw_output = prev_raw
    sb.output = ["sentinel"]
    c = Ctx()
    fixed_append_output(sb, new, c)
    return sb.raw_output == prev_raw + new and c.output == new and sb.output == ["sentinel"] + spec_lines(new)
