import shim, ast, copy
from crosshair import realize
from pedal.core.report import Report
from pedal.cait.stretchy_tree_matching import StretchyTreeMatcher

def build(n1, n2, k):
    tree = ast.parse("a = b + 1\nprint(a)")
    tree.body[0].targets[0].id = n1
    tree.body[0].value.left.id = n2
    tree.body[0].value.right.value = k
    tree.body[1].value.args[0].id = n1
    return tree

def generalise(tree, name):
    t = copy.deepcopy(tree)
    for node in ast.walk(t):
        if isinstance(node, ast.Name) and node.id == name:
            node.id = "_v_"
    return t

def complete(n1: str, n2: str, k: int, which: int) -> bool:
    """
    pre: 1 <= len(n1) <= 2 and 1 <= len(n2) <= 2 and all(c in "ab" for c in n1) and all(c in "ab" for c in n2)
    pre: 0 <= k <= 2 and 0 <= which <= 1
    post: _
    """
    n1 = realize(n1); n2 = realize(n2); k = realize(k)
    student = build(n1, n2, k)
    target = n1 if which == 0 else n2
    pattern = ast.unparse(generalise(student, target))
    r = Report()
    matches = StretchyTreeMatcher(pattern, report=r).find_matches(build(n1, n2, k))
    if not matches:
        return False
    return any(m["_v_"].id == target for m in matches)
