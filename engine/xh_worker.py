"""Runs ONE CrossHair obligation in this process and prints a JSON verdict on the last stdout line.

usage: python -m engine.xh_worker <harness file> <function> <per_condition_timeout> [per_path_timeout]

Verdicts: confirmed | refuted | unknown | pre_unsat | error
"""
import importlib.util
import json
import os
import sys
import time
import traceback


def main():
    path, fname, pct = sys.argv[1], sys.argv[2], float(sys.argv[3])
    ppt = float(sys.argv[4]) if len(sys.argv) > 4 else None
    t0 = time.time()
    out = {"file": path, "function": fname, "verdict": "error", "messages": []}
    try:
        from crosshair.core_and_libs import analyze_function, run_checkables  # noqa
        from crosshair.options import AnalysisOptionSet
        from crosshair.statespace import MessageType
        from crosshair.util import set_debug

        if os.environ.get("VERIF_XH_DEBUG"):
            set_debug(True)
        sys.path.insert(0, os.path.dirname(os.path.abspath(path)))
        modname = os.path.splitext(os.path.basename(path))[0]
        from crosshair.pure_importer import prefer_pure_python_imports
        with prefer_pure_python_imports():
            spec = importlib.util.spec_from_file_location(modname, path)
            mod = importlib.util.module_from_spec(spec)
            sys.modules[modname] = mod
            spec.loader.exec_module(mod)
        fn = getattr(mod, fname)
        kw = dict(per_condition_timeout=pct, report_all=True, report_verbose=False)
        if ppt:
            kw["per_path_timeout"] = ppt
        opts = AnalysisOptionSet(**kw)
        checkables = analyze_function(fn, opts)
        if not checkables:
            out["messages"].append({"state": "error", "message": "no contract found"})
        msgs = run_checkables(checkables)
        worst = None
        for m in msgs:
            out["messages"].append({"state": m.state.value, "message": m.message, "line": m.line})
            if worst is None or m.state > worst:
                worst = m.state
        if worst is None:
            out["verdict"] = "error"
        elif worst == MessageType.CONFIRMED:
            out["verdict"] = "confirmed"
        elif worst == MessageType.CANNOT_CONFIRM:
            out["verdict"] = "unknown"
        elif worst == MessageType.PRE_UNSAT:
            out["verdict"] = "pre_unsat"
        elif worst in (MessageType.POST_FAIL, MessageType.EXEC_ERR, MessageType.POST_ERR):
            out["verdict"] = "refuted"
        else:
            out["verdict"] = "error"
    except BaseException as e:  # noqa
        out["messages"].append({"state": "error", "message": "%s: %s" % (type(e).__name__, e),
                                "traceback": traceback.format_exc()[-2000:]})
    out["seconds"] = round(time.time() - t0, 2)
    try:
        from engine import prelude
        out["paths"] = prelude._count[0]
        out["flags"] = dict(prelude._flags)
    except Exception:
        out["paths"] = 0
    sys.stdout.flush()
    print("\n@@VERDICT@@" + json.dumps(out))
    sys.stdout.flush()
    os._exit(0)


if __name__ == "__main__":
    main()
