"""./check <ID> quick|thorough   |   ./check <ID> --replay <path>"""
import importlib
import json
import os
import sys

from engine.runner import Run, replay_native, ROOT


def main():
    if len(sys.argv) < 3:
        print(__doc__)
        return 2
    pid = sys.argv[1]
    if sys.argv[2] == "--replay":
        with open(sys.argv[3]) as f:
            rec = json.load(f)
        if not rec.get("harness_file"):
            print("SMT finding; model:", rec.get("call"), rec.get("detail"))
            return 1
        rep = replay_native(rec["harness_file"], rec["call"], part=rec.get("part"))
        print(json.dumps(rep, indent=1))
        return 1 if rep.get("outcome") in ("false", "exception") else 0
    tier = sys.argv[2]
    tier = os.environ.get("VERIF_TIER", tier) if tier not in ("quick", "thorough") else tier
    seed = int(os.environ.get("VERIF_SEED", "0") or 0)
    os.environ["VERIF_TIER"] = tier
    spec = importlib.import_module("props." + pid)
    run = Run(pid, tier, seed)
    run.canaries = getattr(spec, "CANARIES", {})
    obs = spec.obligations(tier)
    zobs = spec.smt_obligations(tier) if hasattr(spec, "smt_obligations") else []
    run.execute(obs, zobs, jobs=int(os.environ.get("VERIF_JOBS", "16")))
    return run.finish(spec)


if __name__ == "__main__":
    sys.exit(main())
