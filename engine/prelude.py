"""Harness prelude: imported by every CrossHair harness module (and by native replays of them).

* installs the copy-safety shim for pedal's FeedbackFieldWrapper (CrossHair deep-copies format
  arguments; the wrapper's __getattr__ recurses for ever on a half-built copy);
* counts harness entries (= symbolic paths started) and dumps the count at exit;
* evaluates known-finding exclusion clauses handed over by the runner;
* small helpers shared by harnesses.
"""
import atexit
import json
import os
import sys

PART = os.environ.get("VERIF_PART", "")
TIER = os.environ.get("VERIF_TIER", "quick")

_count = [0]
_flags = {}


# argument tuples to step over (counterexamples that did not replay natively): {"func": ["func(a, b)", ...]}
_SKIP = json.loads(os.environ.get("VERIF_SKIP", "{}") or "{}")
_SKIP_ARGS = {}


def _skip_tuples(func_name, glob):
    if func_name not in _SKIP_ARGS:
        out = []
        for call in _SKIP.get(func_name, ()):
            inside = call[call.index("(") + 1:call.rindex(")")]
            try:
                out.append(eval("(" + inside + ",)", dict(glob)))
            except Exception:
                pass
        _SKIP_ARGS[func_name] = out
    return _SKIP_ARGS[func_name]


def tick(n=1):
    """Called once at the top of every harness function: counts explored paths. Returns True when the caller's
    arguments equal a tuple the runner asked to step over (`if tick(): return True`)."""
    _count[0] += n
    if not _SKIP:
        return False
    frame = sys._getframe(1)
    code = frame.f_code
    tuples = _skip_tuples(code.co_name, frame.f_globals)
    if not tuples:
        return False
    args = [frame.f_locals[name] for name in code.co_varnames[:code.co_argcount]]
    for tup in tuples:
        if len(tup) == len(args) and all((a is None) == (b is None) and a == b for a, b in zip(args, tup)):
            return True
    return False


def flag(name):
    """Records that an interesting branch was reached on some path (vacuity witness)."""
    _flags[name] = _flags.get(name, 0) + 1


def _dump():
    path = os.environ.get("VERIF_COUNT_FILE")
    if path:
        try:
            with open(path, "w") as f:
                json.dump({"paths": _count[0], "flags": _flags}, f)
        except OSError:
            pass


atexit.register(_dump)

# ---------------------------------------------------------------------------------------------
# known-finding exclusions: the runner passes {"<harness id>": ["<python expr over arg names>", ...]}
_EXCL = json.loads(os.environ.get("VERIF_EXCLUDE", "{}") or "{}")
_EXCL_CODE = {h: [compile(c, "<exclusion %s>" % h, "eval") for c in cs] for h, cs in _EXCL.items()}


def excluded(hid, **args):
    """True when the concrete/symbolic arguments fall into a listed known-finding class."""
    for code in _EXCL_CODE.get(hid, ()):
        if eval(code, {"__builtins__": __builtins__}, dict(args)):
            return True
    return False


def xh_control(exc):
    """CrossHair steers paths with BaseException subclasses; harnesses that must catch BaseException
    (C05) re-raise anything that comes from crosshair itself."""
    mod = type(exc).__module__ or ""
    return mod.startswith("crosshair") or mod.startswith("z3")


def bits(*bs):
    """Menu index from symbolic bools, least significant first."""
    v = 0
    for i, b in enumerate(bs):
        if b:
            v += 1 << i
    return v


# ---------------------------------------------------------------------------------------------
# copy-safety shim for FeedbackFieldWrapper (harness process only; /repo is not edited)
def _install_shim():
    try:
        from pedal.core.formatting import FeedbackFieldWrapper
    except Exception:  # pragma: no cover - pedal moved; harnesses will report it
        return
    orig = FeedbackFieldWrapper.__getattr__
    if getattr(orig, "_verif_shim", False):
        return

    def _safe(self, key):
        if key in ("key", "value", "formatter") or (key.startswith("__") and key.endswith("__")):
            raise AttributeError(key)
        return orig(self, key)

    _safe._verif_shim = True
    FeedbackFieldWrapper.__getattr__ = _safe


_install_shim()


# ---------------------------------------------------------------------------------------------
def untraced(fn):
    """Wraps a pedal function that only touches CONCRETE process state (mock.patch start/stop of
    sys.modules / sys.stdout / time.sleep) so that CrossHair does not trace the stdlib machinery
    inside it (3x faster per path). The real function still runs; it must not receive symbolic data."""
    try:
        from crosshair.tracers import NoTracing
    except Exception:  # native replay without crosshair on the path
        return fn
    import functools

    @functools.wraps(fn)
    def wrapper(*a, **k):
        with NoTracing():
            return fn(*a, **k)

    wrapper._verif_untraced = True
    return wrapper


def untrace_patches():
    """Sandbox._start_patches/_stop_patches run untraced (concrete mock.patch bookkeeping only)."""
    from pedal.sandbox.sandbox import Sandbox
    for name in ("_start_patches", "_stop_patches"):
        f = getattr(Sandbox, name, None)
        if f is not None and not getattr(f, "_verif_untraced", False):
            setattr(Sandbox, name, untraced(f))
