"""Native replay of a harness call: no CrossHair, fresh process, real pedal from /repo.

usage: python -m engine.replay <harness file> "<call expression>"
prints one JSON line: {"outcome": "false" | "exception" | "true", "detail": ...}
A harness returns True when its oracle is satisfied; False or an escaping exception reproduces a
counterexample.
"""
import importlib.util
import json
import os
import sys
import traceback


def load(path):
    sys.path.insert(0, os.path.dirname(os.path.abspath(path)))
    modname = os.path.splitext(os.path.basename(path))[0]
    spec = importlib.util.spec_from_file_location(modname, path)
    mod = importlib.util.module_from_spec(spec)
    sys.modules[modname] = mod
    spec.loader.exec_module(mod)
    return mod


def main():
    path, call = sys.argv[1], sys.argv[2]
    out = {"call": call}
    real_stdout = sys.stdout
    try:
        mod = load(path)
        ns = dict(vars(mod))
        ns.setdefault("float", float)
        try:
            val = eval(call, ns)
            out["outcome"] = "true" if val is True or (val and val is not False) else "false"
            out["detail"] = repr(val)[:300]
        except Exception as e:  # the harness let an exception escape = oracle violated ...
            out["outcome"] = "exception"
            out["detail"] = "%s: %s" % (type(e).__name__, str(e)[:300])
            out["traceback"] = traceback.format_exc()[-1500:]
            # ... unless the HARNESS ITSELF tripped over a moved/renamed internal of pedal (refactoring): an
            # AttributeError / ImportError / NameError / TypeError raised in a frame of the harness or engine code
            tb = e.__traceback__
            last = None
            while tb is not None:
                last = tb
                tb = tb.tb_next
            where = os.path.abspath(last.tb_frame.f_code.co_filename) if last is not None else ""
            root = os.path.dirname(os.path.dirname(os.path.abspath(__file__)))
            if isinstance(e, (AttributeError, ImportError, NameError, TypeError)) and (
                    where.startswith(os.path.join(root, "harness")) or where.startswith(os.path.join(root, "engine"))):
                out["outcome"] = "harness_error"
                out["detail"] = "harness tripped over pedal internals (%s) at %s:%s" % (
                    out["detail"], os.path.basename(where), last.tb_lineno)
    except BaseException as e:  # noqa
        out["outcome"] = "error"
        out["detail"] = "%s: %s" % (type(e).__name__, str(e)[:300])
        out["traceback"] = traceback.format_exc()[-1500:]
    sys.stdout = real_stdout
    print("\n@@REPLAY@@" + json.dumps(out))
    sys.stdout.flush()
    os._exit(0)


if __name__ == "__main__":
    main()
