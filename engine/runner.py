"""Obligation runner: CrossHair obligations in parallel worker processes, z3 obligations in-process,
native replay of every counterexample, known-finding handling, evidence and exit code."""
import concurrent.futures as cf
import json
import os
import random
import re
import subprocess
import sys
import tempfile
import time
from dataclasses import dataclass, field
from typing import Callable, Dict, List, Optional

ROOT = os.path.dirname(os.path.dirname(os.path.abspath(__file__)))
PY = sys.executable
KNOWN = os.path.join(ROOT, "known_findings.json")


@dataclass
class Ob:
    """One CrossHair obligation = harness function x partition."""
    hid: str                      # e.g. "C15.append_step"
    file: str                     # harness file, relative to /verif
    func: str
    timeout: float = 60.0         # --per_condition_timeout
    expect: str = "confirm"       # "confirm" | "refute" (reachability twin: must be refuted)
    part: Optional[str] = None    # VERIF_PART
    what: str = ""                # one line: what is asserted, with bounds
    env: Dict[str, str] = field(default_factory=dict)
    per_path: Optional[float] = None
    skip: Optional[dict] = None   # {"func": [call expressions]}: argument tuples to step over (set by the runner)

    @property
    def oid(self):
        return self.hid + ("[%s]" % self.part if self.part not in (None, "") else "")


@dataclass
class ZOb:
    """One direct-SMT obligation (E2): fn() -> dict(status='unsat'|'sat'|'unknown'|'unsupported', ...)."""
    hid: str
    fn: Callable[[], dict]
    what: str = ""
    expect: str = "unsat"         # "unsat" (holds) | "sat" (reachability witness)


def _env_for(ob: Ob, exclusions: dict, count_file: Optional[str] = None):
    env = dict(os.environ)
    env["PYTHONPATH"] = ROOT + os.pathsep + env.get("PYTHONPATH", "")
    env["PYTHONHASHSEED"] = "0"
    env["VERIF_PART"] = ob.part or ""
    env["VERIF_EXCLUDE"] = json.dumps(exclusions)
    env["VERIF_SKIP"] = json.dumps(getattr(ob, "skip", None) or {})
    env["PEDAL_EDU_PEDAL_VERIF"] = "1"
    env.update(ob.env)
    if count_file:
        env["VERIF_COUNT_FILE"] = count_file
    return env


MAX_ROUNDS = 4


def run_xh_rounds(ob: Ob, exclusions: dict) -> dict:
    """Runs the obligation; a counterexample that does not replay natively (CrossHair model / process-history
    divergence) is stepped over and the search continues, up to MAX_ROUNDS times. The final result carries the list of
    stepped-over calls."""
    stepped = []
    res = None
    for _ in range(MAX_ROUNDS):
        res = run_xh(ob, exclusions)
        if ob.expect != "confirm" or res.get("verdict") != "refuted":
            break
        call = counterexample_call(res)
        if call is None:
            break
        rep = replay_native(ob.file, call, part=ob.part, env_extra=ob.env)
        res["counterexample"], res["replay"] = call, rep
        if rep.get("outcome") in ("false", "exception", "harness_error"):
            break
        stepped.append(call)
        ob.skip = {ob.func: list(stepped)}
    if res is not None:
        res["stepped_over"] = stepped
    return res


def run_xh(ob: Ob, exclusions: dict) -> dict:
    cmd = [PY, "-m", "engine.xh_worker", os.path.join(ROOT, ob.file), ob.func, str(ob.timeout)]
    if ob.per_path:
        cmd.append(str(ob.per_path))
    t0 = time.time()
    hard = ob.timeout * 1.5 + 60
    try:
        p = subprocess.run(cmd, cwd=ROOT, env=_env_for(ob, exclusions), capture_output=True, text=True,
                           timeout=hard)
        out = p.stdout
        m = out.rfind("@@VERDICT@@")
        if m < 0:
            res = {"verdict": "error", "messages": [{"state": "error",
                   "message": "worker died rc=%s: %s" % (p.returncode, (p.stderr or out)[-800:])}], "paths": 0}
        else:
            res = json.loads(out[m + len("@@VERDICT@@"):].strip().splitlines()[0])
    except subprocess.TimeoutExpired:
        res = {"verdict": "unknown", "messages": [{"state": "timeout", "message": "hard timeout %ds" % hard}],
               "paths": 0}
    res["wall"] = round(time.time() - t0, 2)
    return res


_CALL_RE = re.compile(r"when calling (.*)$", re.S)


def counterexample_call(res: dict) -> Optional[str]:
    for m in res.get("messages", []):
        if m.get("state") in ("post_fail", "exec_err", "post_err"):
            msg = m["message"]
            mm = _CALL_RE.search(msg)
            if not mm:
                continue
            call = mm.group(1).strip()
            k = call.rfind(" (which returns ")
            if k >= 0:
                call = call[:k]
            return call
    return None


def replay_native(file: str, call: str, part: Optional[str] = None, env_extra=None, timeout=300) -> dict:
    ob = Ob("replay", file, "", part=part, env=env_extra or {})
    try:
        p = subprocess.run([PY, "-m", "engine.replay", os.path.join(ROOT, file), call], cwd=ROOT,
                           env=_env_for(ob, {}), capture_output=True, text=True, timeout=timeout)
        m = p.stdout.rfind("@@REPLAY@@")
        if m < 0:
            return {"outcome": "error", "detail": (p.stderr or p.stdout)[-600:]}
        return json.loads(p.stdout[m + len("@@REPLAY@@"):].strip().splitlines()[0])
    except subprocess.TimeoutExpired:
        return {"outcome": "error", "detail": "replay timeout"}


def load_known(pid: str):
    if not os.path.exists(KNOWN):
        return []
    with open(KNOWN) as f:
        data = json.load(f)
    return [k for k in data.get("findings", []) if k.get("property") == pid]


class Run:
    def __init__(self, pid: str, tier: str, seed: int):
        self.pid, self.tier, self.seed = pid, tier, seed
        self.t0 = time.time()
        self.lines: List[str] = []
        self.violations: List[dict] = []
        self.known_hits: List[dict] = []
        self.results: List[dict] = []
        self.harness_errors: List[str] = []

    def say(self, s):
        print(s, flush=True)

    # -----------------------------------------------------------------------------------------
    def execute(self, obs: List[Ob], zobs: List[ZOb], jobs: int = 16):
        pid = self.pid
        # 1. known findings: reproduce natively first; only a still-reproducing finding excludes anything
        exclusions: Dict[str, List[str]] = {}
        for k in load_known(pid):
            rep = replay_native(k["file"], k["call"], part=k.get("part"))
            if rep.get("outcome") in ("false", "exception"):
                self.say("KNOWN-FINDING: property=%s %s" % (pid, k["what"]))
                self.known_hits.append({"finding": k["id"], "what": k["what"], "replay": rep.get("detail")})
                if k.get("clause"):
                    exclusions.setdefault(k["harness"], []).append(k["clause"])
            else:
                self.say("note: listed finding %s no longer reproduces (%s); nothing is excluded for it"
                         % (k["id"], rep.get("outcome")))
        self.exclusions = exclusions
        # 1b. stub canaries: if pedal no longer reaches a stubbed call site, the obligations built on that stub cannot
        # judge anything (and would raise false alarms): they are reported inconclusive and not run
        dead_files = {}
        for file, call in (getattr(self, "canaries", None) or {}).items():
            rep = replay_native(file, call)
            if rep.get("outcome") != "true":
                dead_files[file] = "stub canary %s -> %s (%s)" % (call, rep.get("outcome"), str(rep.get("detail"))[:120])
                self.say("HARNESS-WARNING: %s: %s; its obligations are skipped" % (file, dead_files[file]))
                self.harness_errors.append("%s: %s" % (file, dead_files[file]))
        skipped = [ob for ob in obs if ob.file in dead_files]
        obs = [ob for ob in obs if ob.file not in dead_files]
        for ob in skipped:
            self.results.append({"kind": "crosshair", "oid": ob.oid, "what": ob.what, "expect": ob.expect, "func": ob.func,
                                 "file": ob.file, "outcome": "inconclusive", "paths": 0,
                                 "reason": "not run: " + dead_files[ob.file]})
        # 2. SMT obligations in-process
        for z in zobs:
            t = time.time()
            try:
                r = z.fn()
            except Exception as e:  # translator refused / moved code: inconclusive, never an alarm
                r = {"status": "unsupported", "detail": "%s: %s" % (type(e).__name__, e)}
            r.setdefault("seconds", round(time.time() - t, 3))
            r.update(kind="smt", oid=z.hid, what=z.what, expect=z.expect)
            self._judge_smt(z, r)
            self.results.append(r)
        # 3. CrossHair obligations in parallel
        order = list(obs)
        random.Random(self.seed).shuffle(order)
        order.sort(key=lambda o: -o.timeout)
        with cf.ThreadPoolExecutor(max_workers=max(1, min(jobs, len(order) or 1))) as ex:
            futs = {ex.submit(run_xh_rounds, ob, exclusions): ob for ob in order}
            for fut in cf.as_completed(futs):
                ob = futs[fut]
                res = fut.result()
                res.update(kind="crosshair", oid=ob.oid, what=ob.what, expect=ob.expect, func=ob.func,
                           file=ob.file)
                self._judge_xh(ob, res)
                self.results.append(res)
        self.results.sort(key=lambda r: r["oid"])

    # -----------------------------------------------------------------------------------------
    def _judge_smt(self, z: ZOb, r: dict):
        st = r.get("status")
        if z.expect == "unsat":
            if st == "unsat":
                r["outcome"] = "discharged"
            elif st == "sat":
                # model must already have been replayed against the real function by the obligation
                if r.get("replayed"):
                    r["outcome"] = "violation"
                    self._violation(z.hid, r.get("model_text", ""), r)
                else:
                    r["outcome"] = "inconclusive"
                    r["reason"] = "model did not replay on the real function (encoding suspect)"
                    self.harness_errors.append(z.hid + ": sat model not reproduced")
            else:
                r["outcome"] = "inconclusive"
                r["reason"] = r.get("detail", st)
        else:
            r["outcome"] = "witness" if st == "sat" else "inconclusive"
        self.say("  [smt] %-34s %-12s %s" % (z.hid, r["outcome"], r.get("reason", "") or ""))

    def _judge_xh(self, ob: Ob, res: dict):
        v = res.get("verdict")
        call = counterexample_call(res) if v == "refuted" else None
        if ob.expect == "refute":
            if v == "refuted":
                res["outcome"] = "witness"
                res["witness"] = call
            elif v == "confirmed":
                res["outcome"] = "vacuous"
                self.harness_errors.append(ob.oid + ": reachability twin was confirmed (harness vacuous)")
            else:
                res["outcome"] = "inconclusive"
                res["reason"] = "reachability twin: " + str(v)
        else:
            if v == "confirmed" and res.get("stepped_over"):
                res["outcome"] = "inconclusive"
                res["reason"] = "confirmed only after stepping over %d non-replaying counterexample(s): %s" % (
                    len(res["stepped_over"]), "; ".join(res["stepped_over"])[:300])
                self.harness_errors.append(ob.oid + ": non-replaying counterexample(s) " + "; ".join(res["stepped_over"])[:300])
            elif v == "confirmed" and (res.get("flags") or {}).get("stub_dead"):
                res["outcome"] = "inconclusive"
                res["reason"] = "an environment stub was never reached by pedal (the stubbed call site moved): nothing was checked"
                self.harness_errors.append(ob.oid + ": stub not reached")
            elif v == "confirmed":
                res["outcome"] = "discharged"
            elif v == "refuted":
                if call is None:
                    res["outcome"] = "inconclusive"
                    res["reason"] = "counterexample without a call expression"
                else:
                    rep = res.get("replay") or replay_native(ob.file, call, part=ob.part, env_extra=ob.env)
                    res["counterexample"] = call
                    res["replay"] = rep
                    if rep.get("outcome") in ("false", "exception"):
                        res["outcome"] = "violation"
                        self._violation(ob.oid, call, res, file=ob.file, part=ob.part)
                    elif rep.get("outcome") == "harness_error":
                        res["outcome"] = "inconclusive"
                        res["reason"] = "entry point moved: " + str(rep.get("detail"))[:300]
                        self.harness_errors.append(ob.oid + ": " + res["reason"])
                    else:
                        res["outcome"] = "inconclusive"
                        res["reason"] = "counterexample did not reproduce natively (model/real divergence)"
                        self.harness_errors.append(ob.oid + ": unreproduced counterexample " + call)
            else:
                res["outcome"] = "inconclusive"
                msgs = "; ".join(m.get("message", "")[:160] for m in res.get("messages", []))
                res["reason"] = "%s (%s)" % (v, msgs)
        self.say("  [xh ] %-34s %-12s paths=%-5s %5.1fs %s" % (
            ob.oid, res["outcome"], res.get("paths", "?"), res.get("wall", 0),
            (res.get("counterexample") or res.get("reason") or "")[:150]))

    def _violation(self, oid, call, res, file=None, part=None):
        d = os.path.join(ROOT, "evidence", "replays")
        os.makedirs(d, exist_ok=True)
        path = os.path.join(d, "%s.json" % re.sub(r"[^A-Za-z0-9_.-]", "_", oid))
        rec = {"property": self.pid, "obligation": oid, "harness_file": file, "part": part, "call": call,
               "detail": (res.get("replay") or {}).get("detail") or res.get("model_text"),
               "how": "./check %s --replay %s" % (self.pid, path)}
        with open(path, "w") as f:
            json.dump(rec, f, indent=1)
        self.violations.append(rec)
        self.say("VIOLATION property=%s replay=%s" % (self.pid, path))

    # -----------------------------------------------------------------------------------------
    def finish(self, spec) -> int:
        res = self.results
        n = len(res)
        discharged = [r for r in res if r["outcome"] == "discharged"]
        witnesses = [r for r in res if r["outcome"] == "witness"]
        incon = [r for r in res if r["outcome"] in ("inconclusive", "vacuous")]
        paths = sum(int(r.get("paths") or 0) for r in res)
        queries = sum(int(r.get("queries") or 0) for r in res)
        solver_s = round(sum(float(r.get("seconds") or 0) for r in res), 2)
        nontrivial = [r for r in res if r["outcome"] in ("discharged", "witness", "violation")
                      and (int(r.get("paths") or 0) >= 2 or int(r.get("queries") or 0) >= 1)]
        samples = []
        for r in res:
            s = {"obligation": r["oid"], "asserts": r.get("what", ""), "engine": r["kind"],
                 "outcome": r["outcome"]}
            if r.get("witness"):
                s["reachability_witness"] = r["witness"]
            if r.get("counterexample"):
                s["counterexample"] = r["counterexample"]
            if r.get("paths") is not None:
                s["paths"] = r.get("paths")
            if r.get("reason"):
                s["reason"] = r["reason"][:300]
            if r.get("model_text"):
                s["model"] = r["model_text"][:300]
            if r.get("queries"):
                s["queries"] = r["queries"]
            s["seconds"] = r.get("wall", r.get("seconds"))
            samples.append(s)
        ev = {
            "property_id": self.pid,
            "tier": self.tier,
            "seed": self.seed,
            "level": "other",
            "coverage": {
                "explanation": spec.EXPLANATION,
                "functions_encoded": getattr(spec, "FUNCTIONS", []),
                "bounds": getattr(spec, "BOUNDS", {}).get(self.tier, getattr(spec, "BOUNDS", {})),
                "outside_bounds": getattr(spec, "OUTSIDE", []),
                "obligations": n,
                "discharged": len(discharged),
                "reachability_witnesses": len(witnesses),
                "inconclusive": len(incon),
                "refuted_and_replayed": len(self.violations),
                "known_findings_reproduced": self.known_hits,
                "evaluations": max(paths + queries, 1),
                "symbolic_paths": paths,
                "smt_queries": queries,
                "solver_or_engine_seconds": solver_s,
                "distinct_nontrivial": len(nontrivial),
                "rule": "one case = one obligation (harness function x partition) decided by the solver: "
                        "CrossHair 'Confirmed over all paths' / z3 unsat, or a natively replayed refutation; "
                        "non-trivial = conclusive verdict reached after >= 2 symbolic paths or >= 1 SMT query; "
                        "evaluations = symbolic paths executed + SMT queries",
                "samples": samples,
                "exhaustive": False,
                "trusted_base": ["CPython 3.12", "CrossHair 0.0.110", "z3 5.1.0", "harness oracles",
                                 "stubs listed under assumptions"],
                "checker_cmd": "./check %s %s" % (self.pid, self.tier),
            },
            "assumptions": list(getattr(spec, "ASSUMPTIONS", [])),
            "wall_s": round(time.time() - self.t0, 2),
            "violations": len(self.violations),
        }
        os.makedirs(os.path.join(ROOT, "evidence"), exist_ok=True)
        with open(os.path.join(ROOT, "evidence", "%s.json" % self.pid), "w") as f:
            json.dump(ev, f, indent=1, default=str)
        self.say("summary property=%s tier=%s obligations=%d discharged=%d witnesses=%d inconclusive=%d "
                 "violations=%d known=%d paths=%d queries=%d wall=%.1fs" % (
                     self.pid, self.tier, n, len(discharged), len(witnesses), len(incon),
                     len(self.violations), len(self.known_hits), paths, queries, ev["wall_s"]))
        for e in self.harness_errors:
            self.say("HARNESS-WARNING: " + e)
        if self.violations:
            return 1
        if not discharged:
            # nothing explored (stubs dead after a refactoring, every obligation timed out, ...): no alarm is raised -
            # the property was not violated on anything explored - but no claim is made either (see the evidence file)
            self.say("HARNESS-ERROR: nothing was discharged; no claim can be made for this tree")
        return 0
