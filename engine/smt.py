"""E2: translate small pure Python functions -- from their AST, as found in /repo at run time -- into one
z3 term (paths merged with If).  Anything outside the supported fragment raises Unsupported, which the
runner reports as an inconclusive obligation (never as an alarm).

Value domain:  Python constants / real module objects (tables are read from the imported module) |
z3 Int/Real/Bool terms | OptStr (optional ASCII string, possibly lower-cased lazily) | SymObj (object
with symbolic attributes / items) | Opaque (f-strings and other message text).
"""
import ast
import builtins
import inspect
import textwrap
import time

import z3


class Unsupported(Exception):
    pass


class Opaque:
    """A value the property does not depend on (message text)."""


class OptStr:
    """Optional ASCII string, possibly lowered."""

    def __init__(self, is_none, s, lowered=False):
        self.is_none, self.s, self.lowered = is_none, s, lowered

    @staticmethod
    def fresh(name):
        return OptStr(z3.Bool(name + "_none"), z3.String(name))


class SymNum:
    """An int-or-float operand: `is_float` (z3 Bool) is its run-time kind, `val` (z3 Real) its value. Over the reals."""

    def __init__(self, name):
        self.is_float = z3.Bool(name + "_is_float")
        self.val = z3.Real(name)
        self.name = name


class TypeOf:
    """type(x) of a SymNum."""

    def __init__(self, num):
        self.num = num


class SymObj:
    def __init__(self, attrs=None, items=None, name="obj"):
        self.attrs = attrs or {}
        self.items = items or {}
        self.name = name
        self.stores = {}


def ascii_only(s):
    """Constraint: every character of z3 string s is ASCII (the stated bound of the str.lower encoding)."""
    return z3.InRe(s, z3.Star(z3.Range(chr(0), chr(127))))


def ci_re(const):
    parts = [z3.Union(z3.Re(c.lower()), z3.Re(c.upper())) if c.isalpha() else z3.Re(c) for c in const]
    if not parts:
        return z3.Re("")
    return parts[0] if len(parts) == 1 else z3.Concat(*parts)


def str_eq(a, b):
    if isinstance(a, str) and isinstance(b, str):
        return z3.BoolVal(a == b)
    if isinstance(a, str):
        a, b = b, a
    if isinstance(b, str):
        if a.lowered:
            if b != b.lower():
                return z3.BoolVal(False)
            return z3.And(z3.Not(a.is_none), z3.InRe(a.s, ci_re(b)))
        return z3.And(z3.Not(a.is_none), a.s == z3.StringVal(b))
    if isinstance(a, OptStr) and isinstance(b, OptStr) and not a.lowered and not b.lowered:
        return z3.And(a.is_none == b.is_none, z3.Or(a.is_none, a.s == b.s))
    raise Unsupported("symbolic == symbolic on lowered strings")


def to_real(v):
    if isinstance(v, SymNum):
        return v.val
    if isinstance(v, bool):
        raise Unsupported("bool as number")
    if isinstance(v, int):
        return z3.RealVal(v)
    if isinstance(v, float):
        return z3.RealVal(repr(v))
    if z3.is_expr(v) and v.sort() == z3.IntSort():
        return z3.ToReal(v)
    return v


def is_num(v):
    return isinstance(v, SymNum) or (isinstance(v, (int, float)) and not isinstance(v, bool)) or (
        z3.is_expr(v) and v.sort() in (z3.IntSort(), z3.RealSort()))


class Interp:
    def __init__(self):
        self.stats = {"functions": [], "nodes": 0}

    # -- entry ------------------------------------------------------------------------------------
    def call(self, fn, args):
        fn = inspect.unwrap(fn)
        if isinstance(fn, staticmethod):
            fn = fn.__func__
        src = textwrap.dedent(inspect.getsource(fn))
        fdef = ast.parse(src).body[0]
        self.stats["functions"].append(getattr(fn, "__qualname__", str(fn)))
        params = [a.arg for a in fdef.args.args]
        if len(params) != len(args):
            raise Unsupported("arity of %s changed: %s" % (fn.__name__, params))
        env = dict(zip(params, args))
        rets = []
        self.block(fdef.body, env, z3.BoolVal(True), rets, fn.__globals__)
        return self.merge(rets)

    def merge(self, rets):
        if not rets:
            raise Unsupported("no return")
        val = rets[-1][1]
        for g, v in reversed(rets[:-1]):
            val = self.ite(g, v, val)
        return val

    # -- helpers ------------------------------------------------------------------------------------
    def ite(self, g, a, b):
        if a is b:
            return a
        if isinstance(a, bool) and isinstance(b, bool):
            return z3.If(g, z3.BoolVal(a), z3.BoolVal(b))
        if isinstance(a, bool):
            a = z3.BoolVal(a)
        if isinstance(b, bool):
            b = z3.BoolVal(b)
        if is_num(a) and is_num(b):
            ia = isinstance(a, int) or (z3.is_expr(a) and a.sort() == z3.IntSort())
            ib = isinstance(b, int) or (z3.is_expr(b) and b.sort() == z3.IntSort())
            if ia and ib:
                a = z3.IntVal(a) if isinstance(a, int) else a
                b = z3.IntVal(b) if isinstance(b, int) else b
                return z3.If(g, a, b)
            return z3.If(g, to_real(a), to_real(b))
        if z3.is_expr(a) and z3.is_expr(b) and a.sort() == b.sort():
            return z3.If(g, a, b)
        if (isinstance(a, (OptStr, str)) or a is None) and (isinstance(b, (OptStr, str)) or b is None):
            return self.ite_str(g, a, b)
        if isinstance(a, Opaque) or isinstance(b, Opaque):
            return Opaque()
        raise Unsupported("ite %s %s" % (type(a).__name__, type(b).__name__))

    def ite_str(self, g, a, b):
        def parts(x):
            if x is None:
                return z3.BoolVal(True), z3.StringVal(""), None
            if isinstance(x, str):
                return z3.BoolVal(False), z3.StringVal(x), None
            return x.is_none, x.s, x.lowered
        an, as_, al = parts(a)
        bn, bs, bl = parts(b)
        low = bool(al or bl)
        if low:
            for x, xl in ((a, al), (b, bl)):
                if isinstance(x, str) and x != x.lower():
                    raise Unsupported("mixed-case constant merged with lowered string")
                if isinstance(x, OptStr) and not xl:
                    raise Unsupported("lowered merged with raw string")
        return OptStr(z3.If(g, an, bn), z3.If(g, as_, bs), low)

    def truth(self, v):
        if isinstance(v, SymNum):
            return v.val != 0
        if isinstance(v, bool):
            return z3.BoolVal(v)
        if v is None:
            return z3.BoolVal(False)
        if isinstance(v, int):
            return z3.BoolVal(v != 0)
        if isinstance(v, str):
            return z3.BoolVal(bool(v))
        if z3.is_expr(v):
            if v.sort() == z3.BoolSort():
                return v
            if v.sort() in (z3.IntSort(), z3.RealSort()):
                return v != 0
        if isinstance(v, OptStr):
            return z3.And(z3.Not(v.is_none), z3.Length(v.s) > 0)
        raise Unsupported("truth of %r" % (v,))

    def eq(self, a, b):
        if isinstance(a, Opaque) or isinstance(b, Opaque):
            raise Unsupported("comparison of message text")
        if a is None or b is None:
            o = a if b is None else b
            if o is None:
                return z3.BoolVal(True)
            if isinstance(o, OptStr):
                return o.is_none
            return z3.BoolVal(False)
        if isinstance(a, (OptStr, str)) or isinstance(b, (OptStr, str)):
            if not (isinstance(a, (OptStr, str)) and isinstance(b, (OptStr, str))):
                return z3.BoolVal(False)
            return str_eq(a, b)
        if isinstance(a, bool) and isinstance(b, bool):
            return z3.BoolVal(a == b)
        if isinstance(a, SymNum) or isinstance(b, SymNum):
            if is_num(a) and is_num(b):
                return to_real(a) == to_real(b)   # Python compares int and float by value
            return z3.BoolVal(False)
        if is_num(a) and is_num(b):
            if (isinstance(a, float) or isinstance(b, float) or
                    (z3.is_expr(a) and a.sort() == z3.RealSort()) or (z3.is_expr(b) and b.sort() == z3.RealSort())):
                return to_real(a) == to_real(b)
            return a == b
        if z3.is_expr(a) or z3.is_expr(b):
            return a == b
        return z3.BoolVal(a == b)

    # -- statements ---------------------------------------------------------------------------------
    def block(self, stmts, env, guard, rets, glob):
        for st in stmts:
            self.stats["nodes"] += 1
            if isinstance(st, ast.Expr) and isinstance(st.value, ast.Constant):
                continue
            if isinstance(st, ast.Pass):
                continue
            if isinstance(st, ast.Return):
                rets.append((guard, self.expr(st.value, env, glob) if st.value is not None else None))
                return z3.BoolVal(False)
            if isinstance(st, ast.Assign):
                new = self.expr(st.value, env, glob)
                for tgt in st.targets:
                    self.assign(tgt, new, env, guard, glob)
                continue
            if isinstance(st, ast.AugAssign) and isinstance(st.target, ast.Name):
                cur = env[st.target.id]
                new = self.binop(st.op, cur, self.expr(st.value, env, glob))
                self.assign(st.target, new, env, guard, glob)
                continue
            if isinstance(st, ast.If):
                c = z3.simplify(self.truth(self.expr(st.test, env, glob)))
                if z3.is_true(c) or z3.is_false(c):      # statically decided: the dead branch is not translated
                    live = st.body if z3.is_true(c) else st.orelse
                    guard = self.block(live, env, guard, rets, glob)
                    if z3.is_false(z3.simplify(guard)):
                        return guard
                    continue
                e1, e2 = dict(env), dict(env)
                g1 = self.block(st.body, e1, z3.And(guard, c), rets, glob)
                g2 = self.block(st.orelse, e2, z3.And(guard, z3.Not(c)), rets, glob)
                for k in set(e1) | set(e2):
                    if k in e1 and k in e2:
                        env[k] = e1[k] if e1[k] is e2[k] else self.ite(c, e1[k], e2[k])
                    else:
                        env[k] = e1.get(k, e2.get(k))
                guard = z3.simplify(z3.Or(g1, g2))
                continue
            raise Unsupported("statement " + ast.dump(st)[:80])
        return guard

    def assign(self, tgt, new, env, guard, glob):
        if isinstance(tgt, ast.Name):
            name = tgt.id
            if name not in env or z3.is_true(z3.simplify(guard)):
                env[name] = new
            else:
                env[name] = self.ite(guard, new, env[name])
            return
        if isinstance(tgt, ast.Subscript):
            base = self.expr(tgt.value, env, glob)
            key = self.expr(tgt.slice, env, glob)
            if isinstance(base, SymObj):
                base.stores.setdefault(repr(key), []).append((guard, new))
                return
        raise Unsupported("assignment target " + ast.dump(tgt)[:60])

    # -- expressions --------------------------------------------------------------------------------
    def binop(self, op, l, r):
        if isinstance(l, Opaque) or isinstance(r, Opaque):
            return Opaque()
        if not (is_num(l) and is_num(r)):
            raise Unsupported("arithmetic on non-numbers")
        if isinstance(op, ast.Add):
            return self._arith(l, r, lambda a, b: a + b)
        if isinstance(op, ast.Sub):
            return self._arith(l, r, lambda a, b: a - b)
        if isinstance(op, ast.Mult):
            return self._arith(l, r, lambda a, b: a * b)
        if isinstance(op, ast.Div):
            return to_real(l) / to_real(r)
        if isinstance(op, ast.FloorDiv):
            if all(isinstance(x, int) or (z3.is_expr(x) and x.sort() == z3.IntSort()) for x in (l, r)):
                if isinstance(r, int) and r > 0:
                    return l / r  # z3 integer division = floor for positive divisor
            raise Unsupported("floor division")
        raise Unsupported("operator " + type(op).__name__)

    def _arith(self, l, r, f):
        if isinstance(l, SymNum) or isinstance(r, SymNum):
            return f(to_real(l), to_real(r))
        if isinstance(l, float) or isinstance(r, float) or any(
                z3.is_expr(x) and x.sort() == z3.RealSort() for x in (l, r)):
            return f(to_real(l), to_real(r))
        return f(l, r)

    def expr(self, e, env, glob):
        self.stats["nodes"] += 1
        if isinstance(e, ast.Constant):
            return e.value
        if isinstance(e, ast.JoinedStr):
            return Opaque()
        if isinstance(e, ast.Tuple) or isinstance(e, ast.List):
            return tuple(self.expr(x, env, glob) for x in e.elts)
        if isinstance(e, ast.Name):
            if e.id in env:
                return env[e.id]
            if e.id in glob:
                return glob[e.id]
            if hasattr(builtins, e.id):
                return getattr(builtins, e.id)
            raise Unsupported("name " + e.id)
        if isinstance(e, ast.Attribute):
            base = self.expr(e.value, env, glob)
            if isinstance(base, SymObj):
                if e.attr not in base.attrs:
                    raise Unsupported("attribute %s of symbolic object not modelled" % e.attr)
                return base.attrs[e.attr]
            if isinstance(base, (OptStr, Opaque)) or z3.is_expr(base):
                raise Unsupported("attribute %s of symbolic value" % e.attr)
            return getattr(base, e.attr)
        if isinstance(e, ast.Subscript):
            base = self.expr(e.value, env, glob)
            key = self.expr(e.slice, env, glob)
            if isinstance(base, SymObj):
                if key not in base.items:
                    raise Unsupported("item %r of symbolic object not modelled" % (key,))
                return base.items[key]
            if isinstance(base, (list, tuple, dict)) and isinstance(key, (int, str)):
                return base[key]
            raise Unsupported("subscript")
        if isinstance(e, ast.Compare):
            left = self.expr(e.left, env, glob)
            out = []
            for op, comp in zip(e.ops, e.comparators):
                right = self.expr(comp, env, glob)
                out.append(self.compare(op, left, right))
                left = right
            return out[0] if len(out) == 1 else z3.And(*out)
        if isinstance(e, ast.BoolOp):
            vs = [self.truth(self.expr(v, env, glob)) for v in e.values]
            return z3.And(*vs) if isinstance(e.op, ast.And) else z3.Or(*vs)
        if isinstance(e, ast.UnaryOp):
            v = self.expr(e.operand, env, glob)
            if isinstance(e.op, ast.Not):
                return z3.Not(self.truth(v))
            if isinstance(e.op, ast.USub) and is_num(v):
                return -v
            raise Unsupported("unary")
        if isinstance(e, ast.BinOp):
            return self.binop(e.op, self.expr(e.left, env, glob), self.expr(e.right, env, glob))
        if isinstance(e, ast.IfExp):
            c = self.truth(self.expr(e.test, env, glob))
            return self.ite(c, self.expr(e.body, env, glob), self.expr(e.orelse, env, glob))
        if isinstance(e, ast.Call):
            return self.call_expr(e, env, glob)
        raise Unsupported("expression " + ast.dump(e)[:80])

    def compare(self, op, l, r):
        if isinstance(op, (ast.Is, ast.IsNot)):
            if r is None or l is None:
                res = self.eq(l, r)
            elif isinstance(l, bool) or isinstance(r, bool):
                res = self.eq(l, r)
            else:
                raise Unsupported("is")
            return z3.Not(res) if isinstance(op, ast.IsNot) else res
        if isinstance(op, (ast.In, ast.NotIn)):
            if isinstance(r, (list, tuple, dict)):
                keys = list(r)
                res = z3.Or(*[self.eq(l, k) for k in keys]) if keys else z3.BoolVal(False)
                return z3.Not(res) if isinstance(op, ast.NotIn) else res
            raise Unsupported("in on non-table")
        if isinstance(op, (ast.Eq, ast.NotEq)):
            res = self.eq(l, r)
            return z3.Not(res) if isinstance(op, ast.NotEq) else res
        if not (is_num(l) and is_num(r)):
            raise Unsupported("ordering on non-numbers")
        if isinstance(l, SymNum) or isinstance(r, SymNum):
            l, r = to_real(l), to_real(r)
        if any(isinstance(x, float) or (z3.is_expr(x) and x.sort() == z3.RealSort()) for x in (l, r)):
            l, r = to_real(l), to_real(r)
        if isinstance(op, ast.Lt):
            return l < r
        if isinstance(op, ast.LtE):
            return l <= r
        if isinstance(op, ast.Gt):
            return l > r
        if isinstance(op, ast.GtE):
            return l >= r
        raise Unsupported("compare")

    def call_expr(self, e, env, glob):
        f = e.func
        if e.keywords:
            raise Unsupported("keyword call")
        if isinstance(f, ast.Attribute):
            base = self.expr(f.value, env, glob)
            args = [self.expr(a, env, glob) for a in e.args]
            if f.attr == "lower" and isinstance(base, OptStr):
                return OptStr(base.is_none, base.s, True)
            if f.attr == "lower" and isinstance(base, str):
                return base.lower()
            if f.attr == "index" and isinstance(base, (list, tuple)):
                out = z3.IntVal(-1)
                for i in reversed(range(len(base))):
                    out = z3.If(self.eq(args[0], base[i]), z3.IntVal(i), out)
                return out
            if f.attr == "get" and isinstance(base, dict):
                out = args[1] if len(args) > 1 else None
                for k, v in reversed(list(base.items())):
                    out = self.ite(self.eq(args[0], k), v, out)
                return out
            if isinstance(base, SymObj) and f.attr in base.attrs and callable(base.attrs[f.attr]):
                return base.attrs[f.attr](*args)
            real = getattr(base, f.attr, None) if not isinstance(base, (OptStr, SymObj, Opaque)) and not z3.is_expr(base) else None
            if inspect.isfunction(real) or inspect.ismethod(real):
                if inspect.ismethod(real):
                    return self.call(real.__func__, [base] + args)
                return self.call(real, args)
            raise Unsupported("method " + f.attr)
        fn = self.expr(f, env, glob)
        args = [self.expr(a, env, glob) for a in e.args]
        if fn is len:
            a = args[0]
            if isinstance(a, (list, tuple, dict, str)):
                return len(a)
            if isinstance(a, SymObj) and "__len__" in a.attrs:
                return a.attrs["__len__"]
            raise Unsupported("len of symbolic value")
        if fn is int:
            a = args[0]
            if isinstance(a, int):
                return a
            if z3.is_expr(a) and a.sort() == z3.IntSort():
                return a
            if z3.is_expr(a) and a.sort() == z3.RealSort():
                return z3.If(a >= 0, z3.ToInt(a), -z3.ToInt(-a))   # truncation toward zero
            raise Unsupported("int()")
        if fn is bool:
            return self.truth(args[0])
        if fn is abs and is_num(args[0]):
            v = to_real(args[0])
            return z3.If(v >= 0, v, -v)
        if fn is type and isinstance(args[0], SymNum):
            return TypeOf(args[0])
        if fn is isinstance:
            return self.isinstance_(args[0], args[1])
        if getattr(fn, "__name__", "") == "is_dataclass" and len(args) == 1 and isinstance(args[0], SymNum):
            return False                      # an int/float is not a dataclass
        if inspect.isfunction(fn):
            if not (getattr(fn, "__module__", "") or "").startswith("pedal"):
                raise Unsupported("call into non-pedal function %s" % getattr(fn, "__qualname__", fn))
            return self.call(fn, args)
        raise Unsupported("call of %r" % (fn,))


    def isinstance_(self, obj, cls):
        import numbers
        if isinstance(obj, SymNum):
            if isinstance(cls, TypeOf):           # isinstance(x, type(y)) for int/float operands: same kind
                return obj.is_float == cls.num.is_float
            classes = cls if isinstance(cls, tuple) else (cls,)
            out = z3.BoolVal(False)
            for c in classes:
                if isinstance(c, TypeOf):
                    out = z3.Or(out, obj.is_float == c.num.is_float)
                elif not isinstance(c, type):
                    raise Unsupported("isinstance against %r" % (c,))
                elif c is float:
                    out = z3.Or(out, obj.is_float)
                elif c is int:
                    out = z3.Or(out, z3.Not(obj.is_float))
                elif issubclass(float, c) and issubclass(int, c):
                    out = z3.BoolVal(True)
                elif issubclass(float, c):
                    out = z3.Or(out, obj.is_float)
                elif issubclass(int, c) or c in (numbers.Number,):
                    out = z3.Or(out, z3.BoolVal(True) if c is numbers.Number else z3.Not(obj.is_float))
                # any other class (str, list, generators, ...): an int/float is never an instance
            return z3.simplify(out)
        if isinstance(obj, (OptStr, SymObj, Opaque)) or z3.is_expr(obj):
            raise Unsupported("isinstance of symbolic non-number")
        return isinstance(obj, cls if not isinstance(cls, TypeOf) else object)


# ---------------------------------------------------------------------------------------------
def solve(constraints, timeout_ms=60000):
    """One query. Returns dict(status, seconds, model)."""
    s = z3.Solver()
    s.set("timeout", timeout_ms)
    for c in constraints:
        s.add(c)
    t = time.time()
    r = s.check()
    out = {"status": str(r), "seconds": round(time.time() - t, 4), "queries": 1}
    if str(r) == "sat":
        out["model"] = s.model()
    elif str(r) == "unknown":
        out["detail"] = s.reason_unknown()
    return out


def model_optstr(model, o: OptStr):
    if z3.is_true(model.eval(o.is_none, model_completion=True)):
        return None
    v = model.eval(o.s, model_completion=True)
    return v.as_string() if hasattr(v, "as_string") else str(v)


def cross_check_cvc5(constraints, expect, timeout_s=60):
    """Thorough tier: the same query through the cvc5 wheel via SMT-LIB2 text. Returns status or None
    when cvc5 is unavailable. A disagreement is reported by the caller as inconclusive."""
    try:
        import cvc5  # noqa
        from cvc5 import Kind  # noqa
    except Exception:
        return None
    s = z3.Solver()
    for c in constraints:
        s.add(c)
    smt2 = s.to_smt2()
    try:
        slv = cvc5.Solver()
        slv.setOption("strings-exp", "true")
        slv.setOption("tlimit", str(int(timeout_s * 1000)))
        slv.setLogic("ALL")
        parser = cvc5.InputParser(slv)
        parser.setStringInput(cvc5.InputLanguage.SMT_LIB_2_6, smt2, "q")
        sm = parser.getSymbolManager()
        res = None
        while True:
            cmd = parser.nextCommand()
            if cmd.isNull():
                break
            out = cmd.invoke(slv, sm)
            if "sat" in str(out):
                res = str(out).strip()
        return res
    except Exception as e:  # parse / theory mismatch: no cross-check
        return "error: %s" % e
