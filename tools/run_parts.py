#!/usr/bin/env python3
"""usage: tools/run_parts.py <harness file> <function> <timeout s> [part ...]
Development helper: runs one harness function through engine.xh_worker for each partition (VERIF_PART) in parallel and
prints verdict / paths / seconds / flags / first non-confirmed message. Set VERIF_REPO=<dir> to analyse a scratch worktree
of pedal instead of /repo (it is put in front of PYTHONPATH), VERIF_EXCLUDE='{"Cxx.func": ["clause"]}' to apply a clause."""
import sys, subprocess, json, os, concurrent.futures as cf
ROOT = os.path.dirname(os.path.dirname(os.path.abspath(__file__)))
f, fn, t = sys.argv[1:4]
parts = sys.argv[4:] or [""]


def run(p):
    pp = ROOT + (":" + os.environ["VERIF_REPO"] if os.environ.get("VERIF_REPO") else "")
    if os.environ.get("VERIF_REPO"):
        pp = os.environ["VERIF_REPO"] + ":" + ROOT
    env = dict(os.environ, VERIF_PART=p, PYTHONPATH=pp)
    try:
        out = subprocess.run([os.path.join(ROOT, ".venv/bin/python"), "-m", "engine.xh_worker", f, fn, t], cwd=ROOT, env=env,
                             capture_output=True, text=True, timeout=int(float(t)) * 2 + 60).stdout
        d = json.loads(out[out.rindex("@@VERDICT@@") + 11:].strip().splitlines()[0])
        return p, d["verdict"], d.get("paths"), d.get("seconds"), d.get("flags"), [m["message"][:230] for m in d["messages"] if m["state"] != "confirmed"]
    except Exception as e:
        return p, "ERR", str(e)[:200]


with cf.ThreadPoolExecutor(6) as ex:
    for r in ex.map(run, parts):
        print(*r)
