#!/bin/bash
# usage: try_seed.sh <patch.diff> <ID> [quick|thorough]   -- applies the seeded change to /repo, runs the check, undoes it
P=$1; ID=$2; TIER=${3:-quick}
cd /verif
git -C /repo diff --quiet || { echo "/repo dirty"; exit 3; }
git -C /repo apply $P || { echo "patch does not apply"; exit 4; }
cp evidence/$ID.json /tmp/ev_$ID.bak 2>/dev/null
./check $ID $TIER > /tmp/try_$ID.out 2>&1; rc=$?
git -C /repo checkout -- .
cp /tmp/ev_$ID.bak evidence/$ID.json 2>/dev/null
grep -E "VIOLATION|KNOWN|summary|HARNESS|violation|inconclusive" /tmp/try_$ID.out | cut -c1-260
echo "exit=$rc"
