#!/bin/bash
# usage: eval_seed.sh <seed dir> <ID> [depth]   -- validates the seed in a fresh worktree of /repo HEAD (demo 0 -> 1, same test
# failures), then runs ./check <ID> quick with the patch applied to /repo. depth = how many directories below the worktree root
# the demo expects to live (1: _seed/demo.py, 2: _seed/<n>/demo.py). Prints one summary line.
SRC=$1; ID=$2; DEPTH=${3:-1}
W=$(mktemp -d /tmp/wtv.XXXX); rmdir $W
git -C /repo worktree add --detach $W HEAD -q || exit 3
if [ "$DEPTH" = 2 ]; then D=$W/_seed/1; else D=$W/_seed; fi
mkdir -p $D && cp $SRC/patch.diff $SRC/demo.py $D/
cd $W
/venv/bin/python $D/demo.py > /tmp/evs0.out 2>&1; r0=$?
if ! git apply $D/patch.diff 2>/dev/null; then echo "SEED $(basename $(dirname $SRC))/$(basename $SRC) -> PATCH-DOES-NOT-APPLY"; cd /; git -C /repo worktree remove --force $W; exit 4; fi
/venv/bin/python $D/demo.py > /tmp/evs1.out 2>&1; r1=$?
nfail=$(/venv/bin/python -m pytest -q -p no:cacheprovider --timeout=900 2>&1 | grep -c "^FAILED")
cd /; git -C /repo worktree remove --force $W
cd /verif
git -C /repo diff --quiet || { echo "/repo dirty"; exit 3; }
git -C /repo apply $SRC/patch.diff
cp evidence/$ID.json /tmp/ev_$ID.bak 2>/dev/null
./check $ID quick > /tmp/try_$ID.out 2>&1; rc=$?
git -C /repo checkout -- .
cp /tmp/ev_$ID.bak evidence/$ID.json 2>/dev/null
by=$(grep -E "^\s+\[(xh |smt)\].*violation" /tmp/try_$ID.out | awk '{print $3}' | sort -u | head -4 | tr '\n' ' ')
echo "SEED $SRC demo_before=$r0 demo_after=$r1 test_failures=$nfail check_exit=$rc caught_by=[$by] $(grep -c HARNESS-WARNING /tmp/try_$ID.out) warnings"
