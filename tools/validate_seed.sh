#!/bin/bash
# usage: validate_seed.sh <dir with patch.diff demo.py meta.json> ; validates in a fresh scratch worktree of /repo HEAD
set -u
SRC=$1
W=$(mktemp -d /tmp/wtv.XXXX); rmdir $W
git -C /repo worktree add --detach $W HEAD -q || exit 3
mkdir -p $W/_seed && cp $SRC/patch.diff $SRC/demo.py $W/_seed/
cd $W
echo "== demo on original"; /venv/bin/python _seed/demo.py > /tmp/demo0.out 2>&1; r0=$?; tail -2 /tmp/demo0.out
git apply _seed/patch.diff || { echo "PATCH DOES NOT APPLY"; cd /; git -C /repo worktree remove --force $W; exit 4; }
echo "== demo on changed"; /venv/bin/python _seed/demo.py > /tmp/demo1.out 2>&1; r1=$?; tail -4 /tmp/demo1.out
echo "== tests on changed"; /venv/bin/python -m pytest -q -p no:cacheprovider --timeout=900 2>&1 | grep -E "^FAILED|passed|failed" | sed 's/ - .*//' | sort > /tmp/tests1.out; tail -1 /tmp/tests1.out; grep -c FAILED /tmp/tests1.out
cd /; git -C /repo worktree remove --force $W
echo "RESULT orig_exit=$r0 changed_exit=$r1"
