#!/usr/bin/env python3
"""Regenerates MANIFEST.json from the table below (claimed checks = props/<ID>.py present and listed here)."""
import json, os
ROOT = os.path.dirname(os.path.dirname(os.path.abspath(__file__)))
TECH = "bounded symbolic execution of the real pedal code with CrossHair 0.0.110 + z3 5.1.0 (per-path SMT, 'Confirmed over all paths'), native replay of counterexamples"
TECH2 = TECH + "; plus direct z3 queries over terms translated from the functions' AST at run time"
CLAIMS = {
 # id: (technique, level text, level note, design ref)
 "C01": (TECH2,
         "Rank function: for ALL ASCII category/priority strings (any case) the AST-translated by_priority equals the documented rank key (z3 unsat per table cell). Selection/eligibility/ties: within N<=2 (quick) / N<=3 (thorough) feedbacks, category/priority/kind/flag menus, one or two suppress() calls of every form with symbolic field values, CrossHair confirms over all paths that resolve() shows exactly min((rank, creation index)) over eligible feedback, the default result when none, and never raises.",
         "documented rank list transcribed into the checker; CrossHair/z3 models; N>3 and non-ASCII strings outside the bound", "DESIGN.md §3 C01"),
 "C02": (TECH,
         "For every ordered pair (quick) / triple (thorough) of feedback calls from a 12-entry constructor menu (core commands and generic Feedback incl. highest-priority, unscored and else_message variants), with symbolic activate/muted/unscored flags, unbounded symbolic message strings and symbolic suppress switches, CrossHair confirms over all paths that correct == success == to_json()['correct'] == conjunction of `correct` over eligible feedback; label+fields suppressions with symbolic field values; resolve / change visibility / resolve-again histories.",
         "constructor menu is finite; CrossHair/z3 models; harness oracle", "DESIGN.md §3 C02"),
 "C03": (TECH2,
         "Operator kernel add_to_current decided for all real current/value by z3 on the AST translation; the valence x trigger x muted/unscored/suppressed table decided by CrossHair over all paths for N<=2 (quick) / N<=3 (thorough) feedbacks with score literals from a menu covering each documented form (incl. fractional percents, numeric scores from 1e-07 to 1e16), label suppressions and else_message; oracle is the exact rational sum.",
         "score literals from a finite menu (formatting realises symbolic floats); reals instead of floats in E2", "DESIGN.md §3 C03"),
 "C04": (TECH,
         "With exec replaced by a stub (symbolic printed text, termination object chosen by symbolic bits from 13 handled classes incl. broken __str__/__repr__, argument-less KeyError/IndexError, SystemExit, RecursionError; the program may close its stdout or re-enter the sandbox) CrossHair confirms over all paths, for run/call/evaluate unthreaded and threaded, that the call returns normally, the failure is the sandbox's exception and exactly one triggered runtime feedback of the mapped class is attached; real compile() failures incl. a NUL byte are covered by a second obligation. Which programs produce which termination, student-line locations and name filters are outside the claim.",
         "exec stub; termination menu is finite; CrossHair/z3 models; threaded obligations run the worker untraced; line locations decided on 16 + 32 + 8 concrete programs and two-file submissions through the real exec (solver-enumerated menus, CPython's traceback as oracle; incl. failures raised inside / through library frames and files that do not compile)", "DESIGN.md §3 C04"),
 "C05": (TECH,
         "Same stub with the menu extended by KeyboardInterrupt, GeneratorExit, a direct BaseException subclass and an internal-fault switch: CrossHair confirms over all paths that after run/call/evaluate returns or raises, sys.stdout, time.sleep, the sys.modules object and its contents (the program may delete / rebind / add entries or rebind the table) and - for each tracer style, with nested executions and a host trace function - sys.gettrace() are as before and the sandbox's stacks are empty, and (two-step histories) that the next execution captures exactly its own output.",
         "exec stub; timeouts / threads outside the claim; tracer-style obligations run untraced inside solver-enumerated menus; CrossHair/z3 models", "DESIGN.md §3 C05"),
 "C07": (TECH2,
         "Relation kernels of 30 assertion classes decided by CrossHair over unbounded symbolic operands (doubles, ints, strings, lists, mixed scalars); the float tolerance decided for all reals by z3 on the AST translation of equality_test and on an IEEE grid; the public calls with every raw/proxy combination (incl. one-shot lazy results), error operands, presentation keywords and unit_test() decided over small grids; sets/frozensets, +-inf and delta=None on grids. NaN, regex/output/type assertions are outside the claim; relations that raise are a recorded known finding.",
         "mixed int/float arithmetic over the reals (E2) + concrete IEEE grid; proxied calls run untraced on concrete values; harness oracles", "DESIGN.md §3 C07"),
 "C08": (TECH2,
         "Threshold logic decided for all non-negative integers by z3 on the AST translation of both _check_usage methods; the symbol tables compared with CPython's parser as z3 functions over the finite symbol sort; the real find_* helpers and ensure_*/prevent_* classes decided by CrossHair over programs with symbolic identifier / constant leaves and over operator / statement menus (incl. chained comparisons and nesting), against a plain walk of CPython's tree.",
         "program shapes come from a fixed family; queried names/literals from menus (they are formatted / rendered); CrossHair/z3 models", "DESIGN.md §3 C08"),
 "C09": (TECH2,
         "Inductive step: from every reachable symbolic abstract pre-state of a variable (z3 strings over yes/no/maybe) the real Tifa.visit is run on blocks from 7 shapes x 7 atoms and compared with a reference interpreter over the concretisation and all branch outcomes: issue labels and lines for every read, and the abstract post-state, are exact; match_rso is the exact join (z3, all pairs). Loops: no missed uninitialised read for while; the for-loop case is a recorded known finding. Nesting beyond the checked shapes is covered by the structural-induction argument only.",
         "semi-internal entry (planted name_map + Tifa.visit); reference interpreter is the oracle; independent branch conditions", "DESIGN.md §3 C09"),
 "C10": (TECH,
         "For 63 pattern x student-shape pairs (quick: 39) over 14 shapes, plus 10 inherited sub-matching pairs, a 12 x 12 menu of constants of every kind and class-name placeholders, with symbolic identifiers and constants in the student tree, CrossHair confirms over all paths that every AstMap the real matcher returns passes an independent witness checker (kinds, primitive content in type and value, direct ordered children up to +/* swap, single identifier per _var_, __expr__ bound to the node at its position) and that absent concrete content yields no match; identifiers at the boundary of the placeholder syntax are shown to be treated as concrete code.",
         "shape and pattern families are finite; trees with symbolic leaves are built with ast constructors; the witness checker is the oracle", "DESIGN.md §3 C10"),
 "C11": (TECH,
         "Bounded-exhaustive: the solver enumerates (with a completeness verdict) a finite grid of 18 student templates x identifier/constant menus (all coincidences) x 10 derivation kinds x positions (optionally after other searches on the same parsed program), plus patterns cut from the program text through the public find_matches; for each choice the pattern is derived from the student's own program and the real find_matches must return a match binding the placeholder to what it replaced. The pattern has to be text, so the matcher runs on concrete values; the claim is exhaustive within the grid only.",
         "finite grid; matcher executed concretely (untraced) per enumerated path; CrossHair's path enumeration", "DESIGN.md §3 C11"),
 "C12": (TECH,
         "With the parser replaced by a stub raising error objects whose position attributes are symbolic within the shapes harvested from CPython on every run, CrossHair confirms over all paths (files <= 3 lines, section offsets <= 2, 3 exception classes) that verify never raises, reports exactly one syntax feedback on CPython's line shifted by the section offset (also when the parser refuses the text with UnicodeEncodeError / RecursionError / ValueError / MemoryError instead of a SyntaxError), and stores the parser's tree on acceptance. The parser's own accept/reject decision is CPython's and is not re-verified.",
         "parser stub constrained to harvested shapes; 44 concrete texts additionally go through the real parser (solver-enumerated menu); CrossHair/z3 models; harness oracle", "DESIGN.md §3 C12"),
 "C15": (TECH,
         "Within the stated bounds (texts <= 3 chars over all unicode for the single recording step from an arbitrary accumulated state; 2-3 operation histories of run/call/evaluate/clear_output with texts <= 1 char; input queues <= 3 items; programs that also write to stderr, keep a reference to input(), or hand the queue back) the solver shows the output/input bookkeeping oracle holds on every path; outside the bounds nothing is claimed. The inductive single-step obligation makes the raw/line-view part independent of history length.",
         "exec of student code is a stub writing a symbolic string; CrossHair's str/list models, z3, CPython; harness oracles", "DESIGN.md §3 C15"),
 "C17": (TECH2,
         "Index arithmetic decided for all integers by z3 on the AST translation. With re.split stubbed by its contract (symbolic parts of any unicode content, <= 1-2 chars each, one or two markers) CrossHair confirms over all paths the chunk / prefix texts, line offset = newlines before the section, not_enough_sections instead of an error past the end, syntax-error lines shifted to whole-file numbering, and restoration of the original text by stop_sections()/resolve, for independent and cumulative mode and 0-4 next_section calls.",
         "re.split and the parser are stubs constrained by their contracts; TIFA/sandbox locations inside sections are outside the claim", "DESIGN.md §3 C17"),
 "C19": (TECH,
         "For every binary operator and comparison, every ordered operand pair from a grid of ints (incl. negatives), floats, strings, lists and tuples is enumerated by the solver through pedal's real operator table and through tifa_analysis, against CPython evaluating the same operands (TypeError => reported; otherwise the inferred type admits the real result); depth-2 expression trees, chained comparisons and empty / container operands go through tifa_analysis the same way; value typing is decided by CrossHair over symbolic scalars, lists, tuples, dicts and nested lists plus a menu of unusual legal values (stable, conforming). Value-dependent Pow cells and int * tuple + tuple are recorded known findings.",
         "operand grids are finite menus; CPython is the reference side; CrossHair/z3 models", "DESIGN.md §3 C19"),
 "C20": (TECH,
         "Within the bounds (one instructor-defined feedback with every condition outcome x keyword combination; ordered pairs of core commands; 6 templates x 3 formatters; parents by name; log()/debug(); all 3-step override sequences over a class, an inheriting subclass and an unrelated class followed by clear/contextualize) CrossHair confirms over all paths the recorded-once / truthful / rendered-from-fields / restored oracle.",
         "field values for rendering come from a 4-value menu; CrossHair/z3 models; harness oracle", "DESIGN.md §3 C20"),
}
NA = {
 "C06": "both sides of the equivalence are CPython executing an arbitrary program; the program text realises at compile(), so nothing is symbolic and each solver query would be one concrete differential run (enumeration, not this technique)",
 "C13": "the observable is whole gradings (exec of instructor scripts against process-wide singletons and class attributes); the state is the interpreter heap and there is no bounded encoding of it (the override/restore ingredient is decided under C20)",
 "C14": "real OS threads with asynchronous exception injection via ctypes; CrossHair cannot execute threads symbolically and an SMT model of the interleavings would be a hand abstraction of mock.patch and CPython, not the code",
 "C16": "decided by the C-level operator/conversion protocol of the operand classes, which CrossHair's value proxies do not reproduce (e.g. NotImplemented from int.__mul__); what remains is a concrete operator x class table, i.e. enumeration",
 "C18": "quantifies over CPython-parsed programs and visitor coverage; the program realises at ast.parse, leaving no symbolic handle on the input; what remains is running TIFA over a corpus (testing)",
}
PENDING = "check not built yet in this tree (see DESIGN.md for the plan)"
ALL = ["C%02d" % i for i in range(1, 21)]
checks = []
for pid in ALL:
    if pid in CLAIMS and os.path.exists(os.path.join(ROOT, "props", pid + ".py")):
        tech, text, note, ref = CLAIMS[pid]
        checks.append({
            "property_id": pid,
            "quick_cmd": "./check %s quick" % pid,
            "thorough_cmd": "./check %s thorough" % pid,
            "evidence_file": "/verif/evidence/%s.json" % pid,
            "replay_cmd_template": "./check %s --replay {path}" % pid,
            "engine": "crosshair+z3",
            "level_claimed": {"category": "other", "text": text, "design_ref": ref},
            "level_note": note,
            "technique": tech,
        })
claimed = {c["property_id"] for c in checks}
na = [{"property_id": p, "reason": NA.get(p, PENDING)} for p in ALL if p not in claimed]
man = {
 "version": 1,
 "setup_cmd": "./setup.sh",
 "hooks": {"guard": "PEDAL_EDU_PEDAL_VERIF", "enable": "no source hooks are needed: all stubs/instrumentation live in the harness process (module-global rebinding); checks export PEDAL_EDU_PEDAL_VERIF=1 for uniformity",
           "baseline_off_cmd": "cd /repo && /venv/bin/python -m pytest -ra -q -p no:cacheprovider --timeout=900 --continue-on-collection-errors",
           "source_commits": [], "add_only": True},
 "engines": [{"name": "crosshair+z3", "path": "engine/", "serves_properties": sorted(claimed),
              "kind_free_text": "CrossHair symbolic execution of harnesses that call the real pedal functions from /repo (overlay venv), direct z3 for AST-translated kernels, native replay"}],
 "checks": checks,
 "not_applicable": na,
 "notes": "Exit codes: 0 no unlisted violation (HARNESS-ERROR line if nothing could be explored); 1 replayed violation (VIOLATION line); 2 usage error. Known findings: known_findings.json. Seeded changes: seeded/."
}
json.dump(man, open(os.path.join(ROOT, "MANIFEST.json"), "w"), indent=1)
print("claimed:", sorted(claimed))
