#!/bin/bash
# usage: tools/run_all_quick.sh [ID ...]   -- runs ./check <ID> quick sequentially (default: every claimed property), one summary line each
cd "$(dirname "$0")/.."
ids=("$@"); [ ${#ids[@]} -eq 0 ] && ids=(C01 C02 C03 C04 C05 C07 C08 C09 C10 C11 C12 C15 C17 C19 C20)
for id in "${ids[@]}"; do
  s=$(date +%s); out=$(mktemp); ./check $id quick > $out 2>&1; rc=$?; e=$(date +%s)
  echo "$id rc=$rc wall=$((e-s))s violations=$(grep -c '^VIOLATION' $out) known=$(grep -c '^KNOWN-FINDING' $out) $(grep '^summary' $out | sed 's/.*obligations=/obligations=/')"
  rm -f $out
done
