"""Shared exec stub for the sandbox properties C04 / C05: what pedal's own code can observe of a student program
is (text written to the captured stream, how it terminates); both are dictated by the harness."""
import colorsys  # noqa: an innocent, already-imported module for the tamper action
import io as _real_io
import sys
import types

import pedal.sandbox.sandbox as SB
from pedal.core.report import Report
from pedal.core.submission import Submission
from pedal.sandbox.sandbox import Sandbox
from engine.prelude import untrace_patches


class UserError(Exception):
    """A student-defined exception."""


class BadStr(Exception):
    def __str__(self):
        raise RuntimeError("broken __str__")


class BadRepr(Exception):
    def __repr__(self):
        raise RuntimeError("broken __repr__")


class UserBase(BaseException):
    """A student-defined direct BaseException subclass."""


# name, factory, handled (True: the sandbox must contain it; False: it may propagate, C05 only)
TERMINATIONS = [
    ("normal", None, True),
    ("ValueError", lambda: ValueError("bad value"), True),
    ("KeyError", lambda: KeyError("k"), True),
    ("UserError", lambda: UserError("mine"), True),
    ("BadStr", lambda: BadStr(), True),
    ("BadRepr", lambda: BadRepr("r"), True),
    ("RecursionError", lambda: RecursionError("maximum recursion depth exceeded"), True),
    ("SystemExit(3)", lambda: SystemExit(3), True),
    ("SystemExit()", lambda: SystemExit(), True),
    ("ZeroDivisionError", lambda: ZeroDivisionError("division by zero"), True),
    ("KeyError()", lambda: KeyError(), True),
    ("IndexError()", lambda: IndexError(), True),
    ("UserError(1, 2)", lambda: UserError(1, 2), True),
    ("KeyboardInterrupt", lambda: KeyboardInterrupt(), False),
    ("GeneratorExit", lambda: GeneratorExit(), False),
    ("UserBase", lambda: UserBase("b"), False),
]

state = {"text": "", "term": 0, "raised": None, "close": False, "calls": 0, "tamper": 0, "nest": None, "depth": 0}


def fake_exec(code, data):
    state["calls"] += 1
    sys.stdout.write(state["text"])
    if state["close"]:
        sys.stdout.close()          # a student program may close (or `with`-manage) the stream it was given
    if state["nest"] is not None and state["depth"] == 0:
        # student code triggers an instructor-supplied callable (mocked function / callable input) that uses the SAME
        # sandbox again: a nested execution
        state["depth"] = 1
        try:
            state["nest"].evaluate("2")
        finally:
            state["depth"] = 0
    if state.get("nest_import") and state["depth"] == 0:
        # the student's program imports another file of the submission: pedal's own import hook runs it (nested)
        state["depth"] = 1
        try:
            b = data.get("__builtins__")
            imp = b["__import__"] if isinstance(b, dict) else getattr(b, "__import__")
            imp("helper")
        finally:
            state["depth"] = 0
    if state["tamper"] == 1:
        sys.modules.pop("colorsys", None)            # a student program may delete ...
    elif state["tamper"] == 2:
        sys.modules["colorsys"] = None               # ... rebind ...
    elif state["tamper"] == 3:
        sys.modules["verif_fake_module"] = sys       # ... or add entries of the module table
    elif state["tamper"] == 4:
        sys.modules = dict(sys.modules)              # ... or rebind the table itself
    if "_" not in data:
        data["_"] = 0
    fac = TERMINATIONS[state["term"]][1]
    if fac is not None:
        exc = fac()
        state["raised"] = exc
        raise exc


SB.exec = fake_exec
untrace_patches()

# CrossHair swaps io.StringIO for its own model, whose getvalue() does not fail on a closed stream. When the stubbed
# program closes the stream, pedal is given the REAL StringIO class (captured here, at import, before tracing starts)
# and the printed text is concrete.
_REAL_STRINGIO = _real_io.StringIO
_SB_IO = SB.io


def _real_stringio(*a, **k):
    try:
        from crosshair.tracers import NoTracing
    except Exception:
        return _REAL_STRINGIO(*a, **k)
    with NoTracing():           # constructing it under tracing would be intercepted and replaced by the model again
        return _REAL_STRINGIO(*a, **k)


def use_real_stream(on):
    SB.io = types.SimpleNamespace(StringIO=_real_stringio) if on else _SB_IO


def fresh(code="pass"):
    r = Report()
    r.contextualize(Submission({"answer.py": code, "helper.py": "y = 1"}, "answer.py"))
    sb = Sandbox(report=r)
    sb.data["f"] = lambda: None
    sb.result_proxy_class = None
    return r, sb


def enter(sb, entry):
    """entry: 0 run, 1 call, 2 evaluate"""
    if entry == 0:
        return sb.run()
    if entry == 1:
        return sb.call("f")
    return sb.evaluate("1")


def stub_reached(before):
    """False when pedal no longer routes student code through the stubbed `exec` (call site moved): the harness then
    reports 'stub_dead' instead of judging anything."""
    return state["calls"] > before


def stub_canary():
    """Run natively by the runner before anything else: True iff pedal still routes student code through the stubbed
    `exec` name and captures what the stub wrote."""
    r, sb = fresh()
    before = state["calls"]
    state["term"], state["text"] = 0, "x"
    sb.run()
    return state["calls"] == before + 1 and sb.raw_output == "x"
