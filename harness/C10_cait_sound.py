"""C10 - every CAIT match is a genuine embedding of the pattern in the student's code.
Patterns are instructor strings (concrete); student trees are built from a grammar of shapes whose LEAVES ARE SYMBOLIC:
identifiers (str) and constants (int | bool | float | str | None)."""
import ast
from typing import Union

from engine.prelude import tick, flag, excluded, bits, PART
from cait_common import SHAPES, run_matcher, check_match, placeholder_kind

Const = Union[int, bool, float, str, None]

# (pattern, shape index) pairs; partition = index into this list
PAIRS = [
    ("_a_ = _b_ + 1", 0), ("_a_ = _a_ + ___", 0), ("x = __e__", 0), ("_a_ = 1 + _b_", 0), ("___ = ___ + 0", 0),
    ("_a_ = _b_ * 2", 1), ("_a_ = 2 * _a_", 1), ("___ * x", 1), ("_a_ = __e__ * __e__", 1),
    ("_a_ = _b_ - _c_", 2), ("_a_ = _a_ - _b_", 2), ("_a_ = _b_ - _b_", 2), ("x - y", 2),
    ("_a_ += 1", 3), ("___ += ___", 3), ("total += __e__", 3),
    ("if _a_ < 0:\n    _b_ = ___", 4), ("if ___:\n    ___\nelse:\n    _c_ = _a_", 4), ("if _a_ < _a_:\n    pass", 4),
    ("if __e__:\n    x = 1", 4), ("_b_ = 5", 4),
    ("for _i_ in _l_:\n    _s_ = _s_ + _i_", 5), ("for _i_ in ___:\n    ___ = _i_ + ___", 5), ("for item in _l_:\n    ___", 5),
    ("for _i_ in _i_:\n    pass", 5),
    ("_f_(_x_, 1)", 6), ("print(___)", 6), ("___(_x_, _x_)", 6), ("_f_(___, None)", 6), ("_f_(__e__)", 6),
    ("_o_._m_(0)", 7), ("___.append(___)", 7), ("_o_.___(___)", 7),
    ("while _a_ > 0:\n    _a_ = _a_ - 1", 8), ("while ___:\n    _a_ = _b_ - ___", 8), ("while x > ___:\n    ___", 8),
    ("_a_ = 0\n_b_ = 0", 9), ("_a_ = ___\n___(_a_)", 9), ("_a_ = 1\n_a_ = 2", 9), ("___\n_f_(_a_)", 9), ("x = 1\nprint(x)", 9),
    ("def _f_(_p_):\n    return _p_ + 1", 10), ("def ___(___):\n    return ___", 10), ("return _a_ + 0", 10),
    # patterns against shapes of ANOTHER kind (nothing or only the generic part may match)
    ("_a_ = _b_ + 1", 1), ("_a_ = _b_ * 2", 0), ("_a_ = _a_ + ___", 2), ("_a_ = _b_ - _c_", 0), ("_a_ + _b_", 1),
    ("_a_ * _b_", 5), ("_a_ += 1", 0), ("while _a_ > 0:\n    ___", 4), ("if _a_ < 0:\n    ___", 8), ("_f_(_x_)", 7),
    ("_a_ = 0\n_a_ = _a_ + 1\n___(_a_)", 9), ("_a_ = ___\n_b_ = ___\n_b_(_a_)", 9), ("___ = ___\n_f_(_x_)", 9),
    # three pattern siblings over four student siblings: a candidate rejected for a _name_ conflict must not disturb the order
    ("_x_ = ___\n_x_ = _x_ + ___\n___(_x_)", 12), ("_x_ = ___\n___(_x_)\n_x_ = _x_ + ___", 12), ("_x_ = ___\n_y_ = _y_ + ___\n___(_x_)", 12),
    ("f(_a_, _a_ + ___, g(_a_))", 13), ("f(_a_, g(_a_), _a_ + ___)", 13), ("f(___, _b_ + ___, ___, _b_ + ___)", 13),
]


def sound(n1: str, n2: str, n3: str, c1: Const, c2: Const) -> bool:
    """
    One (pattern, student shape) pair fixed by the partition; identifiers and constants of the student program symbolic.
    Every match returned by the real matcher passes the witness checker: same node kinds, equal primitive content in type
    and value, mapped children direct and in order (+ and * may swap), one identifier per _name_, __expr__ bound to the
    node at its position.

    pre: len(n1) <= 2 and len(n2) <= 2 and len(n3) <= 2
    pre: c1 == c1 and c2 == c2
    post: _
    """
    if tick():
        return True
    return _sound(n1, n2, n3, c1, c2)


def sound_names(n1: str, n2: str, n3: str) -> bool:
    """
    The same obligation for the pairs over the four-sibling / four-argument shapes (index >= 57), whose patterns hold no
    constants: only the identifiers are symbolic (which of them coincide decides which candidates conflict); the two
    constants are the concrete 1 and 2.

    pre: len(n1) <= 2 and len(n2) <= 2 and len(n3) <= 2
    post: _
    """
    if tick():
        return True
    return _sound(n1, n2, n3, 1, 2)


def _sound(n1, n2, n3, c1, c2):
    k = int(PART) if PART else 0
    pattern, si = PAIRS[k]
    if excluded("C10.sound", k=k, n1=n1, n2=n2, n3=n3, c1=c1, c2=c2):
        return True
    tree = SHAPES[si](n1, n2, n3, c1, c2)
    matches, matcher, root = run_matcher(pattern, tree)
    for m in matches:
        flag("match")
        if not check_match(m):
            return False
    # a pattern whose concrete identifiers / constants occur nowhere in the program yields no match
    pat = ast.parse(pattern)
    names = {n.id for n in ast.walk(pat) if isinstance(n, ast.Name) and placeholder_kind(n) is None}
    consts = [n.value for n in ast.walk(pat) if isinstance(n, ast.Constant)]
    student_consts = [n.value for n in ast.walk(tree) if isinstance(n, ast.Constant)]
    student_names = ([n.id for n in ast.walk(tree) if isinstance(n, ast.Name)]
                     + [n.attr for n in ast.walk(tree) if isinstance(n, ast.Attribute)]
                     + [n.arg for n in ast.walk(tree) if isinstance(n, ast.arg)]
                     + [n.name for n in ast.walk(tree) if isinstance(n, ast.FunctionDef)])
    missing_name = any(all(nm != x for x in student_names) for nm in names)
    missing_const = any(not any(type(c) is type(s) and c == s for s in student_consts) for c in consts)
    if (missing_name or missing_const) and matches:
        return False
    return True


# identifiers at the boundary of the documented placeholder syntax (_name_, __expr__, ___): all of these are CONCRETE code
NEAR_PLACEHOLDERS = ["_x", "x_", "_a_b", "__x", "___y", "_", "__", "a_b", "_1x", "x__", "_ab_c"]


def ident_boundary(n1: str, n2: str, use_call: bool) -> bool:
    """
    Pattern `<ident> = 0` / `<ident>(n)` where <ident> (partition) looks almost like a placeholder but is concrete code:
    it matches exactly the programs that use that very identifier.

    pre: len(n1) <= 5 and len(n2) <= 2
    post: _
    """
    if tick():
        return True
    ident = NEAR_PLACEHOLDERS[int(PART) if PART else 0]
    if use_call:
        pattern, tree = "%s(___)" % ident, SHAPES[6](n1, n2, "z", 0, 0)
    else:
        pattern, tree = "%s = ___ + 0" % ident, SHAPES[0](n1, n2, "z", 0, 0)
    matches, matcher, root = run_matcher(pattern, tree)
    if any(not check_match(m) for m in matches):
        return False
    return (len(matches) > 0) == (n1 == ident)


KIND_CONSTS = [1j, 2j, b"a", b"zzz", ..., 5, "a", None, True, 1.0, 1, b""]


def const_kinds(p0: bool, p1: bool, p2: bool, p3: bool, s0: bool, s1: bool, s2: bool, s3: bool, nested: bool) -> bool:
    """
    Constants of EVERY kind the parser produces - complex, bytes, Ellipsis next to int / float / bool / str / None: the
    pattern `x = <p>` (or `f(<p>)`) matches the program `x = <s>` (`f(<s>)`) exactly when the two constants have the same
    type and equal value.

    pre: True
    post: _
    """
    if tick():
        return True
    ip, isx = bits(p0, p1, p2, p3), bits(s0, s1, s2, s3)
    if ip >= len(KIND_CONSTS) or isx >= len(KIND_CONSTS):
        return True
    nested = True if nested else False
    from crosshair.tracers import NoTracing
    with NoTracing():
        pc, sc = KIND_CONSTS[ip], KIND_CONSTS[isx]
        fmt = "f(%r)" if nested else "x = %r"
        tree = ast.parse(fmt % (sc,))
        matches, matcher, root = run_matcher(fmt % (pc,), tree)
        same = type(pc) is type(sc) and pc == sc
        return bool(matches) == same


def class_conflict(n1: str, n2: str, as_call: bool) -> bool:
    """
    A _name_ placeholder used as a CLASS name and again as a function / variable name: `class _c_: pass` + `_c_()` (or
    `x = _c_`) against `class <n1>: pass` + `<n2>()` (`x = <n2>`) with symbolic identifiers matches exactly when n1 == n2.

    pre: len(n1) <= 2 and len(n2) <= 2
    post: _
    """
    if tick():
        return True
    cls = ast.ClassDef(name=n1, bases=[], keywords=[], body=[ast.Pass(lineno=2, col_offset=4)], decorator_list=[],
                       type_params=[], lineno=1, col_offset=0)
    use = ast.Name(id=n2, ctx=ast.Load(), lineno=3, col_offset=0)
    if as_call:
        second = ast.Expr(value=ast.Call(func=use, args=[], keywords=[], lineno=3, col_offset=0), lineno=3, col_offset=0)
        pattern = "class _c_:\n    pass\n_c_()"
    else:
        second = ast.Assign(targets=[ast.Name(id="x", ctx=ast.Store(), lineno=3, col_offset=0)], value=use, lineno=3, col_offset=0)
        pattern = "class _c_:\n    pass\nx = _c_"
    tree = ast.Module(body=[cls, second], type_ignores=[])
    matches, matcher, root = run_matcher(pattern, tree)
    return bool(matches) == (n1 == n2)


def sound_reach(n1: str, n2: str, c1: Const) -> bool:
    """
    Reachability twin: REFUTED (the pattern `_a_ = _a_ + 1` matches for suitable symbolic leaves).

    pre: len(n1) <= 2 and len(n2) <= 2
    post: _
    """
    if tick():
        return True
    tree = SHAPES[0](n1, n2, "z", c1, 0)
    matches, matcher, root = run_matcher("_a_ = _a_ + 1", tree)
    return len(matches) == 0


SUB_PAIRS = [
    ("for _i_ in ___:\n    __e__", "_s_ = _s_ + _i_", 5),
    ("for _i_ in ___:\n    __e__", "_s_ + _i_", 5),
    ("for _i_ in _l_:\n    __e__", "___ = _l_ + ___", 5),
    ("while _a_ > ___:\n    __e__", "_a_ = _a_ - ___", 8),
    ("if _a_ < ___:\n    __e__", "_a_ = ___", 4),
    ("_a_ = __e__", "_a_ + ___", 0),
    ("_a_ = __e__", "___ * _a_", 1),
    ("for _i_ in ___:\n    __e__", "_s_ = _s_ + _i_", 11),
    ("for _i_ in ___:\n    __e__", "_s_ + _i_", 11),
    ("for _i_ in _l_:\n    __e__", "_i_ + _l_", 11),
]


def sub_sound(n1: str, n2: str, n3: str, c1: Const) -> bool:
    """
    Sub-matching that inherits an earlier match (match["__e__"].find_matches(inner), use_previous=True): the pair (outer,
    inner) is the partition; every returned map still binds each _name_ to ONE identifier and passes the witness checker.

    pre: len(n1) <= 2 and len(n2) <= 2 and len(n3) <= 2 and c1 == c1
    post: _
    """
    if tick():
        return True
    outer, inner, si = SUB_PAIRS[int(PART) if PART else 0]
    tree = SHAPES[si](n1, n2, n3, c1, 1)
    matches, matcher, root = run_matcher(outer, tree)
    for m in matches:
        if not check_match(m):
            return False
        if "__e__" not in m.exp_table:
            continue
        node = m["__e__"]                      # public accessor: remembers the match it came from
        subs = node.find_matches(inner)        # use_previous defaults to True
        for sm in subs:
            # inherited bindings must agree with the new ones: _i_ was bound to the loop variable by the outer match
            if "_i_" in m.symbol_table and "_i_" in sm.symbol_table:
                if any(s_.id != n1 for s_ in sm.symbol_table["_i_"].my_list):
                    return False
            flag("submatch")
            for key, syms in sm.symbol_table.items():
                ids = [s_.id for s_ in syms.my_list]
                if any(i != ids[0] for i in ids):
                    return False
            if sm.has_conflicts():
                return False
    return True
