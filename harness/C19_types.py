"""C19 - TIFA's operator typing and value typing agree with what CPython does at run time."""
import ast
import operator
from typing import Dict, List, Optional, Set, Tuple, Union

from engine.prelude import tick, flag, excluded, bits, PART
from crosshair.tracers import NoTracing
from pedal.core.report import Report
from pedal.core.commands import contextualize_report
from pedal.tifa import tifa_analysis
from pedal.types.new_types import Type, ImpossibleType, is_subtype, BoolType
from pedal.types.normalize import get_pedal_type_from_value, normalize_type
from pedal.types.operations import apply_binary_operation

VALUES = [-2, -1, 0, 1, 2, 3, 0.5, -1.5, 2.0, "", "a", [], [1], [1, 2], (), (1,), (1, 2)]
BINOPS = [("+", ast.Add, operator.add), ("-", ast.Sub, operator.sub), ("*", ast.Mult, operator.mul),
          ("/", ast.Div, operator.truediv), ("//", ast.FloorDiv, operator.floordiv), ("%", ast.Mod, operator.mod),
          ("**", ast.Pow, operator.pow), ("<<", ast.LShift, operator.lshift), (">>", ast.RShift, operator.rshift),
          ("|", ast.BitOr, operator.or_), ("^", ast.BitXor, operator.xor), ("&", ast.BitAnd, operator.and_)]
CMPS = [("<", ast.Lt, operator.lt), ("<=", ast.LtE, operator.le), (">", ast.Gt, operator.gt), (">=", ast.GtE, operator.ge),
        ("in", ast.In, lambda a, b: a in b), ("not in", ast.NotIn, lambda a, b: a not in b)]


def _val(b0, b1, b2, b3, b4):
    k = bits(b0, b1, b2, b3, b4)
    return k if k < len(VALUES) else None


def binop(a0: bool, a1: bool, a2: bool, a3: bool, a4: bool, b0: bool, b1: bool, b2: bool, b3: bool, b4: bool) -> bool:
    """
    Operator = partition; operands from a 17-value grid of ints (incl. negatives), floats, strings, lists, tuples (solver
    enumerated). pedal: apply_binary_operation on the pedal types of the two values. CPython: evaluates the operator.
    CPython TypeError => pedal ImpossibleType; otherwise, when pedal does not object, its result is a Type the real result
    value's type is a subtype of.

    pre: True
    post: _
    """
    if tick():
        return True
    ia, ib = _val(a0, a1, a2, a3, a4), _val(b0, b1, b2, b3, b4)
    if ia is None or ib is None:
        return True
    k = int(PART) if PART else 0
    sym, node, fn = BINOPS[k]
    a, b = VALUES[ia], VALUES[ib]
    if excluded("C19.binop", sym=sym, a=a, b=b):
        return True
    raised_type_error, has_result, result = False, False, None
    try:
        result = fn(a, b)
        has_result = True
    except TypeError:
        raised_type_error = True
    except (ZeroDivisionError, ValueError, OverflowError):
        pass
    pt = apply_binary_operation(node(), get_pedal_type_from_value(a), get_pedal_type_from_value(b))
    if raised_type_error:
        flag("type_error")
        return isinstance(pt, ImpossibleType)
    if isinstance(pt, ImpossibleType) or not has_result:
        return True
    return isinstance(pt, Type) and bool(is_subtype(get_pedal_type_from_value(result), pt))


GLUE_VALUES = [-1, 2, 1.5, "a", [1], (1, 2), -2.5, ()]


def tifa_glue(a0: bool, a1: bool, a2: bool, b0: bool, b1: bool, b2: bool) -> bool:
    """
    The same statement through the real analysis: tifa_analysis("x = <a> / y = <b> / z = x <op> y") reports
    incompatible_types whenever CPython raises TypeError (binary operators and comparisons; operator = partition), and
    the type of z conforms otherwise.

    pre: True
    post: _
    """
    if tick():
        return True
    k = int(PART) if PART else 0
    ops = BINOPS + CMPS
    sym, node, fn = ops[k]
    a, b = GLUE_VALUES[bits(a0, a1, a2)], GLUE_VALUES[bits(b0, b1, b2)]
    if excluded("C19.tifa_glue", sym=sym, a=a, b=b):
        return True
    return _glue_cell(sym, fn, a, b)


EMPTY_VALUES = ["", [], (), {}, 0, "a", [1], 3]


def tifa_glue_empty(a0: bool, a1: bool, a2: bool, b0: bool, b1: bool, b2: bool) -> bool:
    """
    tifa_glue with EMPTY operands on either side: '', [], (), {} and 0 against 'a', [1] and 3 (operator = partition) - the
    empty string is still a string (3 in '' is a TypeError), an empty list still a list.

    pre: True
    post: _
    """
    if tick():
        return True
    k = int(PART) if PART else 16
    sym, node, fn = (BINOPS + CMPS)[k]
    a, b = EMPTY_VALUES[bits(a0, a1, a2)], EMPTY_VALUES[bits(b0, b1, b2)]
    if excluded("C19.tifa_glue", sym=sym, a=a, b=b):
        return True
    with NoTracing():
        return _glue_cell(sym, fn, a, b)


def _glue_cell(sym, fn, a, b):
    raised_type_error, has_result, result = False, False, None
    try:
        result = fn(a, b)
        has_result = True
    except TypeError:
        raised_type_error = True
    except (ZeroDivisionError, ValueError, OverflowError):
        pass
    code = "x = %r\ny = %r\nz = x %s y\n" % (a, b, sym)
    r = Report()
    contextualize_report(code, report=r)
    res = tifa_analysis(report=r)
    issues = res.issues.get("incompatible_types", [])
    if raised_type_error:
        return len(issues) >= 1
    if issues or not has_result:
        return True
    z = res.top_level_variables["z"].type
    return isinstance(z, Type) and bool(is_subtype(get_pedal_type_from_value(result), z))


CHAIN_OPS = ["==", "!=", "<", "<=", ">", "in", "is"]
CHAIN_VALUES = [1, 2.5, "a", [1], (1, 2), "ab"]


def tifa_chain(a0: bool, a1: bool, a2: bool, b0: bool, b1: bool, b2: bool, c0: bool, c1: bool, c2: bool,
               o0: bool, o1: bool, o2: bool) -> bool:
    """
    Chained comparisons through the real analysis: `r = x op1 y op2 z` with op1 = partition, op2 from
    {==, !=, <, <=, >, in, is}, operands from {1, 2.5, 'a', [1], (1, 2), 'ab'}: whenever CPython raises TypeError
    evaluating the chain (it compares x with y, then - unless that was false - y with z), incompatible_types is reported;
    when nothing is reported the type of r admits the real value.

    pre: True
    post: _
    """
    if tick():
        return True
    ia, ib, ic, k2 = bits(a0, a1, a2), bits(b0, b1, b2), bits(c0, c1, c2), bits(o0, o1, o2)
    if ia >= 6 or ib >= 6 or ic >= 6 or k2 >= 7:
        return True
    k1 = int(PART) if PART else 1
    with NoTracing():
        return _chain_cell(CHAIN_OPS[k1], CHAIN_OPS[k2], CHAIN_VALUES[ia], CHAIN_VALUES[ib], CHAIN_VALUES[ic])


def _chain_cell(op1, op2, a, b, c):
    code = "x = %r\ny = %r\nz = %r\nr = x %s y %s z\n" % (a, b, c, op1, op2)
    raised_type_error, has_result, result = False, False, None
    import warnings
    with warnings.catch_warnings():
        warnings.simplefilter("ignore")
        ns = {}
        try:
            exec(compile(code, "chain", "exec"), ns)
            result, has_result = ns["r"], True
        except TypeError:
            raised_type_error = True
    r = Report()
    contextualize_report(code, report=r)
    res = tifa_analysis(report=r)
    issues = res.issues.get("incompatible_types", [])
    if raised_type_error:
        return len(issues) >= 1
    if issues or not has_result:
        return True
    t = res.top_level_variables["r"].type
    return isinstance(t, Type) and bool(is_subtype(get_pedal_type_from_value(result), t))


def _vt(v):
    t = get_pedal_type_from_value(v)
    first = bool(is_subtype(t, t))
    second = bool(is_subtype(t, t))
    kind = [c for c in (bool, int, float, str, type(None), list, tuple, dict, set) if isinstance(v, c)][0]
    normal = normalize_type(kind).as_type()
    return isinstance(t, Type) and first and second and bool(is_subtype(t, normal))


def value_scalar(v: Union[int, float, bool, str, None]) -> bool:
    """
    The pedal type of a run-time value is stable (a subtype of itself, asked twice) and conforms to the normalised form
    of the value's own Python type: scalars.

    pre: not isinstance(v, str) or len(v) <= 2
    post: _
    """
    if tick():
        return True
    return _vt(v)


def value_list(v: List[Union[int, str]]) -> bool:
    """
    pre: len(v) <= 2 and all(not isinstance(x, str) or len(x) <= 1 for x in v)
    post: _
    """
    if tick():
        return True
    return _vt(v)


def value_tuple(v: Tuple[int, Tuple[str, int]], w: Tuple[int, str]) -> bool:
    """
    pre: len(v[1][0]) <= 1 and len(w[1]) <= 1
    post: _
    """
    if tick():
        return True
    return _vt(v) and _vt(w) and _vt(())


def value_dict(v: Dict[str, int], w: Dict[int, List[int]]) -> bool:
    """
    pre: len(v) <= 2 and len(w) <= 1 and all(len(k) <= 1 for k in v) and all(len(x) <= 1 for x in w.values())
    post: _
    """
    if tick():
        return True
    return _vt(v) and _vt(w)


def value_set(has0: bool, has1: bool, has_a: bool, has_f: bool) -> bool:
    """
    Sets over {0, 1, "a", 2.5} (every subset, incl. mixed element types and the empty set).

    pre: True
    post: _
    """
    if tick():
        return True
    v = set()
    if has0:
        v.add(0)
    if has1:
        v.add(1)
    if has_a:
        v.add("a")
    if has_f:
        v.add(2.5)
    return _vt(v)


_NAN = float("nan")
SPECIAL_VALUES = [{_NAN: 1}, [_NAN], (_NAN, 1), {1.5: "a"}, {True: 1, 2: "b"}, {None: 1}, {(1, 2): 3}, {"a": {_NAN: 1}},
                  [{_NAN: 1}], {float("inf"): 1}, {-0.0: 1}, {"": ""}, [[], [1]], ((), (1,)), {frozenset(): 1}, {1: {2: {3: [4.5]}}}]


def value_special(k0: bool, k1: bool, k2: bool, k3: bool) -> bool:
    """
    Value typing on unusual but legal JSON-like values: NaN / inf / -0.0 / None / bool / tuple / frozenset dictionary keys,
    NaN elements, empty containers nested in containers, three-level dictionaries. Stable and conforming as above.

    pre: True
    post: _
    """
    if tick():
        return True
    v = SPECIAL_VALUES[bits(k0, k1, k2, k3)]
    with NoTracing():
        t1, t2 = get_pedal_type_from_value(v), get_pedal_type_from_value(v)
        return _vt(v) and bool(is_subtype(t1, t2)) and bool(is_subtype(t2, t1))


def value_nested(v: List[List[int]]) -> bool:
    """
    pre: len(v) <= 2 and all(len(x) <= 2 for x in v)
    post: _
    """
    if tick():
        return True
    return _vt(v)


def binop_reach(a0: bool, a1: bool, a2: bool, a3: bool, a4: bool) -> bool:
    """
    Reachability twin: REFUTED (some operand makes `a + 1` a TypeError that pedal reports).

    pre: True
    post: _
    """
    if tick():
        return True
    ia = _val(a0, a1, a2, a3, a4)
    if ia is None:
        return True
    pt = apply_binary_operation(ast.Add(), get_pedal_type_from_value(VALUES[ia]), get_pedal_type_from_value(1))
    return not isinstance(pt, ImpossibleType)


def numeric_twins(v: int, float_first: bool) -> bool:
    """
    An int and the float equal to it (3 and 3.0) typed one after the other in the same process, in both orders: each gets
    the type of ITS OWN Python type, and `"ab" * 3.0`-style TypeErrors are still reported.

    pre: -4 <= v <= 4
    post: _
    """
    if tick():
        return True
    f = float(v)
    if float_first:
        tf, ti = get_pedal_type_from_value(f), get_pedal_type_from_value(v)
    else:
        ti, tf = get_pedal_type_from_value(v), get_pedal_type_from_value(f)
    ti2, tf2 = get_pedal_type_from_value(v), get_pedal_type_from_value(f)
    int_t, float_t = normalize_type(int).as_type(), normalize_type(float).as_type()
    ok = (bool(is_subtype(ti, int_t)) and bool(is_subtype(ti2, int_t)) and bool(is_subtype(tf, float_t))
          and bool(is_subtype(tf2, float_t)) and not bool(is_subtype(tf, int_t)))
    shift = apply_binary_operation(ast.LShift(), ti2, tf2)        # 1 << 1.0 is a TypeError in CPython
    repeat = apply_binary_operation(ast.Mult(), get_pedal_type_from_value("ab"), tf2)   # "ab" * 1.0 as well
    return ok and isinstance(shift, ImpossibleType) and isinstance(repeat, ImpossibleType)


TREE_VALUES = [2, -1, 1.5, "a", [1], (1, 2), -2.5, (1, "a")]


def tifa_tree(a0: bool, a1: bool, a2: bool, b0: bool, b1: bool, b2: bool, c0: bool, c1: bool, c2: bool,
              o0: bool, o1: bool, o2: bool, o3: bool) -> bool:
    """
    Depth-2 expression trees through the real analysis: `z = (x op1 y) op2 w` or `z = x op2 (y op1 w)` with (op1, which side is nested) =
    partition, op2 from the 12 binary operators, operands from an 8-value menu (incl. a signed float literal and a mixed tuple) (all concrete on the path; the body runs untraced).
    CPython TypeError anywhere in the tree => an incompatible_types issue; otherwise the type of z admits the real value.

    pre: True
    post: _
    """
    if tick():
        return True
    ia, ib, ic, k2 = bits(a0, a1, a2), bits(b0, b1, b2), bits(c0, c1, c2), bits(o0, o1, o2, o3)
    if k2 >= 12:
        return True
    k1, left_nested = (int(PART.split(",")[0]), PART.split(",")[1] == "L") if PART else (0, True)
    with NoTracing():
        return _tree_cell(BINOPS[k1], BINOPS[k2], TREE_VALUES[ia], TREE_VALUES[ib], TREE_VALUES[ic], left_nested)


CONTAINER_VALUES = [[], [1], ["s"], [1.5], 2, (), (1,), "a"]


def container_tree(a0: bool, a1: bool, a2: bool, b0: bool, b1: bool, b2: bool, c0: bool, c1: bool, c2: bool,
                   left_nested: bool) -> bool:
    """
    Depth-2 trees over CONTAINER operands - empty and non-empty lists of different element types, empty / one-element
    tuples, an int and a str - with op1, op2 from {+, *} (partition "i,j"): concatenations that start from an empty
    container, repetitions, and their mixes. Same oracle as tifa_tree.

    pre: True
    post: _
    """
    if tick():
        return True
    i, j = [int(x) for x in (PART or "0,0").split(",")]
    ops = [b for b in BINOPS if b[0] in ("+", "*")]
    a, b, c = CONTAINER_VALUES[bits(a0, a1, a2)], CONTAINER_VALUES[bits(b0, b1, b2)], CONTAINER_VALUES[bits(c0, c1, c2)]
    left_nested = True if left_nested else False
    with NoTracing():
        return _tree_cell(ops[i], ops[j], a, b, c, left_nested)


def _tree_cell(op1, op2, a, b, c, left_nested):
    (s1, _, f1), (s2, _, f2) = op1, op2

    def _vd(sym, l, r):      # the value-dependent Pow cells of the recorded known finding
        if sym != "**" or not isinstance(l, (int, float)) or not isinstance(r, (int, float)):
            return False
        return (isinstance(l, int) and isinstance(r, int) and r < 0) or (l < 0 and isinstance(r, float) and r != int(r))

    try:
        inner = f1(a, b) if left_nested else f1(b, c)
        pow_value_dependent = _vd(s1, *((a, b) if left_nested else (b, c))) or (
            _vd(s2, inner, c) if left_nested else _vd(s2, a, inner))
    except Exception:
        pow_value_dependent = False
    # (int * tuple) + tuple: the repetition keeps the operand's element types, the recorded known finding
    repeat_then_concat = (left_nested and s1 == "*" and s2 == "+" and isinstance(c, tuple) and (
        (type(a) is int and isinstance(b, tuple)) or (type(b) is int and isinstance(a, tuple))))
    if excluded("C19.tifa_tree", s1=s1, s2=s2, a=a, b=b, c=c, left_nested=left_nested,
                pow_value_dependent=pow_value_dependent, repeat_then_concat=repeat_then_concat):
        return True
    raised_type_error, has_result, result = False, False, None
    try:
        result = f2(f1(a, b), c) if left_nested else f2(a, f1(b, c))
        has_result = True
    except TypeError:
        raised_type_error = True
    except (ZeroDivisionError, ValueError, OverflowError, MemoryError):
        pass
    if has_result and isinstance(result, complex):
        return True
    expr = "(x %s y) %s w" % (s1, s2) if left_nested else "x %s (y %s w)" % (s2, s1)
    code = "x = %r\ny = %r\nw = %r\nz = %s\n" % (a, b, c, expr)
    r = Report()
    contextualize_report(code, report=r)
    res = tifa_analysis(report=r)
    issues = res.issues.get("incompatible_types", [])
    if raised_type_error:
        return len(issues) >= 1
    if issues or not has_result:
        return True
    z = res.top_level_variables["z"].type
    return isinstance(z, Type) and bool(is_subtype(get_pedal_type_from_value(result), z))
