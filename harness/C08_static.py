"""C08 - static ensure_*/prevent_* checks agree with the student's actual syntax tree.
Student trees are built with `ast` constructors (or parsed from text assembled from menu entries) with SYMBOLIC
leaves: identifier strings, constant values; thresholds are symbolic small ints. The real ensure_*/prevent_* classes
and find_* helpers run on `root=CaitNode(tree)`; the oracle counts by a plain walk of CPython's own tree."""
import ast
from typing import Union

from engine.prelude import tick, flag, excluded, bits, PART
from pedal.cait.cait_node import CaitNode
from pedal.cait.find_node import find_function_calls, find_operation
from pedal.core.report import Report
from pedal.core.commands import contextualize_report
import pedal.assertions.static as S


def _root(tree, r):
    ast.fix_missing_locations(tree)
    return CaitNode(tree, report=r)


def _report():
    r = Report()
    contextualize_report("pass", report=r)
    return r


def _name(n, line):
    return ast.Name(id=n, ctx=ast.Load(), lineno=line, col_offset=0)


def _call(func, args, line):
    return ast.Call(func=func, args=args, keywords=[], lineno=line, col_offset=0)


def _fires_ok(fb, should_fire, lines):
    if bool(fb) != should_fire:
        return False
    if should_fire and lines and fb.location is not None and fb.location.line not in lines:
        return False
    return True


QNAMES = ["f", "ab", "print"]


def calls(n1: str, n2: str, n3: str, n4: str, q0: bool, q1: bool) -> bool:
    """
    Program:  n1(1) / y = n2(n3(2)) / z.n4()   with symbolic names; the queried name comes from a 3-entry menu (it is
    formatted into the message, which would realise a symbolic string); threshold = partition.
    ensure_function_call(q, at_least=t) fires iff count < t; prevent_function_call(q, at_most=t) fires iff count > t;
    find_function_calls returns exactly the counted nodes; the reported line is the line of one of them.

    pre: len(n1) <= 2 and len(n2) <= 2 and len(n3) <= 2 and len(n4) <= 2
    post: _
    """
    if tick():
        return True
    t = int(PART) if PART else 1
    qi = bits(q0, q1)
    if qi >= len(QNAMES):
        return True
    q = QNAMES[qi]
    c1 = _call(_name(n1, 1), [ast.Constant(value=1, lineno=1, col_offset=0)], 1)
    c3 = _call(_name(n3, 2), [ast.Constant(value=2, lineno=2, col_offset=0)], 2)
    c2 = _call(_name(n2, 2), [c3], 2)
    c4 = _call(ast.Attribute(value=_name("z", 3), attr=n4, ctx=ast.Load(), lineno=3, col_offset=0), [], 3)
    tree = ast.Module(body=[ast.Expr(value=c1, lineno=1, col_offset=0),
                            ast.Assign(targets=[ast.Name(id="y", ctx=ast.Store(), lineno=2, col_offset=0)], value=c2,
                                       lineno=2, col_offset=0),
                            ast.Expr(value=c4, lineno=3, col_offset=0)], type_ignores=[])
    r = _report()
    root = _root(tree, r)
    counted = [(c, ln) for c, n, ln in ((c1, n1, 1), (c2, n2, 2), (c3, n3, 2), (c4, n4, 3)) if n == q]
    count = len(counted)
    lines = [ln for _, ln in counted]
    found = find_function_calls(q, root=root)
    if len(found) != count or any(not any(f.astNode is c for c, _ in counted) for f in found):
        return False
    if excluded("C08.calls", count=count, t=t):
        return True
    e = S.ensure_function_call(q, at_least=t, root=root, report=r)
    p = S.prevent_function_call(q, at_most=t, root=root, report=r)
    return _fires_ok(e, count < t, []) and _fires_ok(p, count > t, lines)


COMPARES = ["==", "<", "<=", ">=", ">", "!=", "is", "is not", "in", "not in"]
COMPARE_CLASSES = [ast.Eq, ast.Lt, ast.LtE, ast.GtE, ast.Gt, ast.NotEq, ast.Is, ast.IsNot, ast.In, ast.NotIn]
BINOPS = ["+", "-", "*", "/", "//", "%", "**", ">>", "<<", "|", "^", "&", "@"]
BINOP_CLASSES = [ast.Add, ast.Sub, ast.Mult, ast.Div, ast.FloorDiv, ast.Mod, ast.Pow, ast.RShift, ast.LShift, ast.BitOr,
                 ast.BitXor, ast.BitAnd, ast.MatMult]


def compare_ops(a0: bool, a1: bool, a2: bool, a3: bool, b0: bool, b1: bool, b2: bool, b3: bool,
                chained: bool) -> bool:
    """
    Program  `r = x <s1> y`  or the chained  `r = x <s1> y <s2> z`  plus `if x <s2> y: pass` on line 2, with s1, s2 and
    the queried symbol from the 10 comparison symbols: find_operation / ensure_operation / prevent_operation count exactly
    the operator nodes CPython's tree holds for that symbol.

    pre: True
    post: _
    """
    if tick():
        return True
    q, t = [int(x) for x in (PART or "2,1").split(",")]
    i, j = bits(a0, a1, a2, a3), bits(b0, b1, b2, b3)
    if i >= 10 or j >= 10 or q >= 10:
        return True
    line1 = "r = x %s y %s z" % (COMPARES[i], COMPARES[j]) if chained else "r = x %s y" % COMPARES[i]
    code = line1 + "\nif x %s y:\n    pass\n" % COMPARES[j]
    tree = ast.parse(code)
    r = _report()
    root = CaitNode(tree, report=r)
    want_cls = COMPARE_CLASSES[q]
    occ = [(node.lineno) for node in ast.walk(tree) if isinstance(node, ast.Compare)
           for op in node.ops if type(op) is want_cls]
    count = len(occ)
    found = find_operation(COMPARES[q], root=root)
    if len(found) != count:
        return False
    e = S.ensure_operation(COMPARES[q], at_least=t, root=root, report=r)
    p = S.prevent_operation(COMPARES[q], at_most=t, root=root, report=r)
    return _fires_ok(e, count < t, []) and _fires_ok(p, count > t, occ)


def bin_ops(a0: bool, a1: bool, a2: bool, a3: bool, q0: bool, q1: bool, q2: bool, q3: bool, q4: bool, nested: bool) -> bool:
    """
    Program `r = x <s> y` or `r = (x <s> y) <s> z`, plus `w = not x` / `w = ~x` / `w = x and y` / `w = x or y` on line 2:
    find_operation for every binary, boolean and unary symbol pedal documents.

    pre: True
    post: _
    """
    if tick():
        return True
    i, q, u = bits(a0, a1, a2, a3), bits(q0, q1, q2, q3, q4), (int(PART) if PART else 0)
    if i >= 13 or q >= 13 + 4:
        return True
    extra = ["w = not x", "w = ~x", "w = x and y", "w = x or y or z"][u]
    line1 = "r = (x %s y) %s z" % (BINOPS[i], BINOPS[i]) if nested else "r = x %s y" % BINOPS[i]
    tree = ast.parse(line1 + "\n" + extra + "\n")
    r = _report()
    root = CaitNode(tree, report=r)
    if q < 13:
        sym, cls = BINOPS[q], BINOP_CLASSES[q]
        count = sum(1 for n in ast.walk(tree) if isinstance(n, ast.BinOp) and type(n.op) is cls)
    else:
        sym, cls = [("not", ast.Not), ("~", ast.Invert), ("and", ast.And), ("or", ast.Or)][q - 13]
        count = sum(1 for n in ast.walk(tree) if isinstance(n, (ast.UnaryOp, ast.BoolOp)) and type(n.op) is cls)
    found = find_operation(sym, root=root)
    e = S.ensure_operation(sym, at_least=1, root=root, report=r)
    p = S.prevent_operation(sym, at_most=1, root=root, report=r)
    return len(found) == count and bool(e) == (count < 1) and bool(p) == (count > 1)


Lit = Union[int, float, bool, str]
QUERIES = [0, 1, 2, True, False, 1.0, "a", "", "1"]


def literals(v1: Lit, v2: Lit) -> bool:
    """
    Program  a = <v1> / b = [<v2>] / f(1)  with symbolic constants of type int|float|bool|str; partition "q,t": queried
    literal from a 9-entry menu (it is rendered to a pattern with repr) and threshold: an occurrence is a constant of the
    SAME TYPE and equal value.

    pre: (not isinstance(v1, str) or len(v1) <= 1) and (not isinstance(v2, str) or len(v2) <= 1)
    pre: all(not isinstance(v, float) or v == v for v in (v1, v2))
    post: _
    """
    if tick():
        return True
    qi, t = [int(x) for x in (PART or "1,0").split(",")]
    q = QUERIES[qi]
    v3 = 1
    k1 = ast.Constant(value=v1, lineno=1, col_offset=4)
    k2 = ast.Constant(value=v2, lineno=2, col_offset=5)
    k3 = ast.Constant(value=v3, lineno=3, col_offset=2)
    tree = ast.Module(body=[
        ast.Assign(targets=[ast.Name(id="a", ctx=ast.Store(), lineno=1, col_offset=0)], value=k1, lineno=1, col_offset=0),
        ast.Assign(targets=[ast.Name(id="b", ctx=ast.Store(), lineno=2, col_offset=0)],
                   value=ast.List(elts=[k2], ctx=ast.Load(), lineno=2, col_offset=4), lineno=2, col_offset=0),
        ast.Expr(value=_call(_name("f", 3), [k3], 3), lineno=3, col_offset=0)], type_ignores=[])
    r = _report()
    root = _root(tree, r)
    occ = [ln for v, ln in ((v1, 1), (v2, 2), (v3, 3)) if type(v) is type(q) and v == q]
    count = len(occ)
    if excluded("C08.literals", q=q, v1=v1, v2=v2, v3=v3, t=t):
        return True
    e = S.ensure_literal(q, at_least=t, root=root, report=r)
    p = S.prevent_literal(q, at_most=t, root=root, report=r)
    return _fires_ok(e, count < t, []) and _fires_ok(p, count > t, occ)


ODD_LITERALS = [1j, 2j, b"a", b"zzz", 5, "a", 1.5, True]


def literal_kinds(q0: bool, q1: bool, q2: bool, a0: bool, a1: bool, a2: bool, b0: bool, b1: bool, b2: bool, t0: bool,
                  u_prefix: bool) -> bool:
    """
    Literal kinds beyond int / float / bool / str: complex and bytes constants in the program and as the queried literal
    (menu 1j, 2j, b'a', b'zzz', 5, 'a', 1.5, True for the query and for two program constants): an occurrence is a
    constant of the same type and equal value - however the program spells it (`u_prefix`: string constants written
    with the legal u'' prefix).

    pre: True
    post: _
    """
    if tick():
        return True
    q, v1, v2, t = ODD_LITERALS[bits(q0, q1, q2)], ODD_LITERALS[bits(a0, a1, a2)], ODD_LITERALS[bits(b0, b1, b2)], (1 if t0 else 0)
    u_prefix = True if u_prefix else False
    from crosshair.tracers import NoTracing
    with NoTracing():
        spell = (lambda v: ("u" + repr(v)) if (u_prefix and isinstance(v, str)) else repr(v))
        code = "a = %s\nb = [%s]\n" % (spell(v1), spell(v2))
        r = Report()
        contextualize_report(code, report=r)
        occ = [ln for v, ln in ((v1, 1), (v2, 2)) if type(v) is type(q) and v == q]
        e = S.ensure_literal(q, at_least=t, report=r)
        p = S.prevent_literal(q, at_most=t, report=r)
        return _fires_ok(e, len(occ) < t, []) and _fires_ok(p, len(occ) > t, occ)


TYPES = [int, float, str, bool]


def literal_types(v1: Lit, v2: Lit, k0: bool, k1: bool, t0: bool, t1: bool) -> bool:
    """
    ensure_literal_type / prevent_literal_type for int, float, str, bool on a program with two symbolic constants.

    pre: (not isinstance(v1, str) or len(v1) <= 1) and (not isinstance(v2, str) or len(v2) <= 1)
    pre: all(not isinstance(v, float) or v == v for v in (v1, v2))
    post: _
    """
    if tick():
        return True
    ty = TYPES[bits(k0, k1)]
    t = bits(t0, t1)
    c1 = ast.Constant(value=v1, lineno=1, col_offset=4)
    c2 = ast.Constant(value=v2, lineno=2, col_offset=6)
    tree = ast.Module(body=[
        ast.Assign(targets=[ast.Name(id="a", ctx=ast.Store(), lineno=1, col_offset=0)], value=c1, lineno=1, col_offset=0),
        ast.Expr(value=_call(_name("print", 2), [c2], 2), lineno=2, col_offset=0)], type_ignores=[])
    r = _report()
    root = _root(tree, r)
    occ = [ln for v, ln in ((v1, 1), (v2, 2)) if type(v) is ty]
    count = len(occ)
    if excluded("C08.literal_types", ty=ty.__name__, v1=v1, v2=v2, t=t):
        return True
    e = S.ensure_literal_type(ty, at_least=t, root=root, report=r)
    p = S.prevent_literal_type(ty, at_most=t, root=root, report=r)
    return _fires_ok(e, count < t, []) and _fires_ok(p, count > t, occ)


STMTS = ["x = 1", "for i in y:\n    pass", "while x:\n    x = 0", "if x:\n    pass\nelse:\n    x = 2", "def g():\n    return 1",
         "import math", "from os import path", "x += 1"]
NODE_NAMES = ["For", "While", "If", "FunctionDef", "Return", "Assign", "AugAssign", "Import", "ImportFrom", "Pass",
              # kinds whose ast objects CPython shares between ALL parsed trees (operators, contexts)
              "LtE", "Store", "Load", "Compare", "Name", "Add"]
MODULES = ["math", "os", "random"]


def asts_imports(s0: bool, s1: bool, s2: bool, u0: bool, u1: bool, u2: bool, m0: bool, m1: bool) -> bool:
    """
    Two statements from an 8-entry menu; ensure_ast/prevent_ast for 10 node kinds and ensure_import/prevent_import for
    3 module names against a plain walk of the parsed tree.

    pre: True
    post: _
    """
    if tick():
        return True
    k, m = (int(PART) if PART else 0), bits(m0, m1)
    if k >= len(NODE_NAMES) or m >= len(MODULES):
        return True
    code = STMTS[bits(s0, s1, s2)] + "\n" + STMTS[bits(u0, u1, u2)] + "\n"
    tree = ast.parse(code)
    r = _report()
    root = CaitNode(tree, report=r)
    name = NODE_NAMES[k]
    count = sum(1 for n in ast.walk(tree) if type(n).__name__ == name)
    e = S.ensure_ast(name, at_least=1, root=root, report=r)
    p = S.prevent_ast(name, at_most=1, root=root, report=r)
    p0 = S.prevent_ast(name, root=root, report=r)
    mod = MODULES[m]
    imported = any((isinstance(n, ast.Import) and any(a.name == mod for a in n.names)) or
                   (isinstance(n, ast.ImportFrom) and n.module == mod) for n in ast.walk(tree))
    ei = S.ensure_import(mod, root=root, report=r)
    pi = S.prevent_import(mod, root=root, report=r)
    return (bool(e) == (count < 1) and bool(p) == (count > 1) and bool(p0) == (count > 0)
            and bool(ei) == (not imported) and bool(pi) == imported)


def calls_reach(n1: str, q: str) -> bool:
    """
    Reachability twin: REFUTED (prevent_function_call fires on a symbolic name).

    pre: len(n1) <= 2 and len(q) <= 2
    post: _
    """
    if tick():
        return True
    c1 = _call(_name(n1, 1), [], 1)
    tree = ast.Module(body=[ast.Expr(value=c1, lineno=1, col_offset=0)], type_ignores=[])
    r = _report()
    root = _root(tree, r)
    return not bool(S.prevent_function_call(q, root=root, report=r))


OTHER_CODE = "while q:\n    q = q - 1\nr = 1 <= 2\n"


BAD_CODE = "y = ("
# node kinds queried by default_root: statements and kinds whose ast objects are shared between all parsed trees
DR_NAMES = ["For", "If", "Assign", "Pass", "LtE", "Store", "Compare", "Add"]


def default_root(s0: bool, s1: bool, s2: bool, k0: bool, k1: bool, k2: bool, k3: bool, step0: bool, step1: bool) -> bool:
    """
    History on ONE report: a default check on the submission, then (optionally) a helper parses OTHER code through
    student_code= (parse_program / find_matches on a reference solution), then ensure_ast / prevent_ast / find_operation
    WITHOUT root= : they still describe the submission, not the other code. Partition "bad,first_check,verified": the
    other code does not parse; the submission was already looked at before the helper ran; the Source tool parsed the
    submission first and then, explicitly, the other code (verify(other_code)).

    pre: True
    post: _
    """
    if tick():
        return True
    from pedal.cait.cait_api import parse_program, find_matches
    bad, first_check, verified = [x == "1" for x in (PART or "0,1,0").split(",")]
    k = bits(k0, k1, k2)
    if k3:
        return True
    code = STMTS[bits(s0, s1, s2)] + "\nt = a <= b\n"
    r = Report()
    contextualize_report(code, report=r)
    name = DR_NAMES[k]
    tree = ast.parse(code)
    count = sum(1 for n in ast.walk(tree) if type(n).__name__ == name)
    other = BAD_CODE if bad else OTHER_CODE
    if verified:
        from pedal.source import verify
        verify(report=r)
        verify(other, report=r)          # ... and then looked at the other code as well: the Source tool's tree is now ITS tree
    if first_check:
        first = S.prevent_ast(name, report=r)
        if bool(first) != (count > 0):
            return False
    if step0:
        parse_program(other, report=r)
    if step1:
        if find_matches("___ = ___", other, report=r) and bad:
            return False
    e = S.ensure_ast(name, report=r)
    p = S.prevent_ast(name, report=r)
    ops = find_operation("<=", report=r)
    from pedal.cait.cait_api import find_asts
    nodes = find_asts(name, report=r)
    again = find_matches("t = ___ <= ___", report=r)          # the submission's own last statement
    return (bool(e) == (count < 1) and bool(p) == (count > 0) and len(ops) == 1 and len(nodes) == count
            and len(again) == 1)
