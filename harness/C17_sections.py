"""C17 - sections split losslessly and report whole-file line numbers.

Stubs (harness process only): `re.split` inside pedal.source.sections returns symbolic parts [c0, m1, c1, ...]
whose concatenation is the submission (re.split's documented contract for a pattern with one whole-match group);
the parser stub of C12 makes verify() see a syntax error at a symbolic local line."""
import re as real_re

from engine.prelude import tick, flag, excluded, bits, PART
import C12_verify as P                      # installs the parser stub in pedal.source.source
import pedal.source.sections as SEC
from pedal.core.report import Report, MAIN_REPORT
from pedal.core.commands import contextualize_report
from pedal.source.sections import separate_into_sections, next_section, stop_sections
from pedal.source.source import verify
from pedal.resolvers import simple

_parts = {"value": None, "used": 0}


class _ReStub:
    def __getattr__(self, name):
        return getattr(real_re, name)

    def split(self, pattern, string, *a, **k):
        parts = _parts["value"]
        if parts is None:
            return real_re.split(pattern, string, *a, **k)
        _parts["used"] += 1
        return list(parts)


SEC.re = _ReStub()


def _nl(s):
    n = 0
    for ch in s:
        if ch == "\n":
            n += 1
    return n


def _walk(parts, independent, steps, err_local, finish_resolve):
    full = "".join(parts)
    r = Report()
    contextualize_report(full, report=r)
    _parts["value"] = parts
    main_before = len(MAIN_REPORT.feedback) + len(MAIN_REPORT.ignored_feedback)
    try:
        used_before = _parts["used"]
        separate_into_sections(independent=independent, report=r)
        if _parts["used"] == used_before:
            flag("stub_dead")          # the split no longer goes through the stubbed `re` name
            return True
        if r.submission.main_code != parts[0]:
            return False
        offset = 0
        active_index = 0
        for step in range(steps):
            idx = 2 * (step + 1)
            before = len(r.feedback)
            next_section(report=r)
            if idx < len(parts):
                active_index = idx
                if independent:
                    offset = _nl("".join(parts[:idx]))
                    if r.submission.main_code != parts[idx]:
                        return False
                    if r.submission.line_offsets.get("answer.py", 0) != offset:
                        return False
                else:
                    if r.submission.main_code != "".join(parts[:idx + 1]):
                        return False
                    if r.submission.line_offsets.get("answer.py", 0) != 0:
                        return False
                if len(r.feedback) != before:
                    return False
            else:
                flag("past_end")
                new = r.feedback[before:]
                if len(new) != 1 or new[0].label != "not_enough_sections":
                    return False
                if any(f.label == "not_enough_sections" for f in MAIN_REPORT.feedback):
                    return False
        if err_local > 0 and r.submission.main_code != "":   # (the parser stub never raises for empty text)
            P._state["raise"] = SyntaxError("invalid syntax", ("answer.py", err_local, 1, None, err_local, 2))
            before = len(r.feedback)
            try:
                verify(report=r)
            finally:
                P._state["raise"] = None
            new = [f for f in r.feedback[before:] if f.label in ("syntax_error", "indentation_error")]
            if len(new) != 1:
                return False
            want = err_local + r.submission.line_offsets.get("answer.py", 0)
            if independent and steps * 2 < len(parts) and want != err_local + offset:
                return False
            if new[0].location.line != want or ("Line %d of file" % want) not in new[0].message:
                return False
        if finish_resolve:
            simple.resolve(r)
        else:
            stop_sections(report=r)
        return r.submission.main_code == full and r["source"]["substitutions"] == []
    finally:
        _parts["value"] = None
        MAIN_REPORT.clear()


MAXLEN = 2 if __import__("os").environ.get("VERIF_TIER") == "thorough" else 1


def walk3(c0: str, m1: str, c1: str, fin: bool) -> bool:
    """
    One marker (3 parts, ANY unicode content). Partition "independent,steps": steps = 0..3 next_section() calls (so up
    to two past the end), then stop_sections() or resolve. Section text, line offset (= number of newlines before the
    section), not_enough_sections past the end, restoration of the original text.

    pre: len(c0) <= MAXLEN and len(m1) <= MAXLEN and len(c1) <= MAXLEN
    post: _
    """
    if tick():
        return True
    p = [int(x) for x in (PART or "1,1").split(",")]
    independent, steps = bool(p[0]), p[1]
    if excluded("C17.walk3", c0=c0, m1=m1, c1=c1, independent=independent, steps=steps, fin=fin):
        return True
    return _walk([c0, m1, c1], independent, steps, 0, fin)


TEXTS = ["", "a", "\n", "a\n", "\na", "a\nb", "\n\n", "b"]


def walk3_err(x0: bool, x1: bool, x2: bool, y0: bool, y1: bool, y2: bool, z0: bool, z1: bool, z2: bool,
              e0: bool) -> bool:
    """
    As walk3 but with a syntax error (parser stub) at local line 1 or 2 of the active section: the feedback's line and
    its traceback text are local line + section offset. Part texts come from an 8-entry menu because the traceback
    text embeds the source line (formatting realises symbolic text).

    pre: True
    post: _
    """
    if tick():
        return True
    p = [int(x) for x in (PART or "1,1").split(",")]
    parts = [TEXTS[bits(x0, x1, x2)], TEXTS[bits(y0, y1, y2)], TEXTS[bits(z0, z1, z2)]]
    return _walk(parts, bool(p[0]), p[1], 2 if e0 else 1, False)


def walk5(c0: str, m1: str, c1: str, m2: str, c2: str) -> bool:
    """
    Two markers (5 parts of <= 1 character each, any unicode); partition "steps,independent,finish".

    pre: len(c0) <= 1 and len(m1) <= 1 and len(c1) <= 1 and len(m2) <= 1 and len(c2) <= 1
    post: _
    """
    if tick():
        return True
    p = [int(x) for x in (PART or "2,1,0").split(",")]
    return _walk([c0, m1, c1, m2, c2], bool(p[1]), p[0], 0, bool(p[2]))


def walk_reach(c0: str, m1: str, c1: str) -> bool:
    """
    Reachability twin: REFUTED (a section with a non-zero line offset is reached).

    pre: len(c0) <= 2 and len(m1) <= 2 and len(c1) <= 2
    post: _
    """
    if tick():
        return True
    full = c0 + m1 + c1
    r = Report()
    contextualize_report(full, report=r)
    _parts["value"] = [c0, m1, c1]
    try:
        separate_into_sections(independent=True, report=r)
        next_section(report=r)
        return r.submission.line_offsets.get("answer.py", 0) != 2
    finally:
        _parts["value"] = None


# ---------------------------------------------------------------------------------------------
def pattern_shape() -> bool:
    """
    The default section pattern is anchored and consists of ONE capturing group spanning the whole match (the
    condition under which re.split is lossless): checked on the parsed pattern, no symbolic input.

    pre: True
    post: _
    """
    if tick():
        return True
    import re._parser as sp
    tree = sp.parse(SEC.DEFAULT_SECTION_PATTERN)
    items = list(tree)
    ops = [str(op) for op, _ in items]
    return (len(items) == 3 and ops[0] == "AT" and ops[2] == "AT" and ops[1] == "SUBPATTERN"
            and items[1][1][0] == 1 and tree.state.groups == 2)


# ---------------------------------------------------------------------------------------------
# Real tools inside real sections (no stubs): concrete files assembled from menus; the solver enumerates the menu,
# the bodies run untraced. Expected line = position of the (unique) offending statement in the whole file.
PROLOGUES = ["", "a = 0\nprint(a)\n", "a = 0\n\n\nprint(a)\n"]
FILLERS = ["k = 1\nprint(k)\n", "k = 1\nprint(k)\nk2 = k\nprint(k2)\n"]
TARGETS = [("print(undefined_name)\n", "tifa"), ("zz = 1 / 0\n", "runtime"), ("print(undefined_name)\n", "runtime"),
           ("v = (\n", "syntax"), ("  w = 1\n", "syntax"),
           ("def boom(n):\n    m = n\n    return m / 0\n", "call")]          # failure inside a student function reached by call()


def tools_in_sections(p0: bool, p1: bool, f0: bool, t0: bool, t1: bool, t2: bool, second: bool, independent: bool,
                      crlf: bool) -> bool:
    """
    A file `prologue / ##### Part 1 / S1 / ##### Part 2 / S2` where the offending statement sits in section 1 or 2 (the
    other holds filler): the line reported by verify (syntax), tifa_analysis (initialization problem) and the sandbox
    (runtime feedback location AND traceback text) is the statement's line in the ORIGINAL file, in independent and
    cumulative mode.

    pre: True
    post: _
    """
    if tick():
        return True
    p, t = bits(p0, p1), bits(t0, t1, t2)
    if p >= len(PROLOGUES) or t >= len(TARGETS):
        return True
    from crosshair.tracers import NoTracing
    filler = FILLERS[1 if f0 else 0]
    second, independent, crlf = (True if second else False), (True if independent else False), (True if crlf else False)
    with NoTracing():       # every symbolic bit has been decided above
        return _tools_concrete(PROLOGUES[p], filler, TARGETS[t], second, independent, crlf)


def _tools_concrete(prologue, filler, target, second, independent, crlf=False):
    from pedal.tifa import tifa_analysis
    from pedal.sandbox.commands import run, call
    stmt, kind = target
    s1, s2 = (filler, stmt) if second else (stmt, filler)
    full = prologue + "##### Part 1\n" + s1 + "##### Part 2\n" + s2
    first_line = stmt.split("\n")[0] if kind != "call" else "    return m / 0"
    want = full.split("\n").index(first_line) + 1
    if crlf:
        full = full.replace("\n", "\r\n")         # Windows line endings: same lines, same numbers
    r = Report()
    contextualize_report(full, report=r)
    separate_into_sections(independent=independent, report=r)
    if "".join(r["source"]["sections"]) != full:      # the split (real re.split here) loses nothing
        return False
    next_section(report=r)
    if second:
        next_section(report=r)
    ok_syntax = verify(report=r)
    if kind == "syntax":
        fbs = [f for f in r.feedback if f.label in ("syntax_error", "indentation_error")]
        res = len(fbs) == 1 and fbs[0].location.line == want
    elif not ok_syntax and not (kind != "syntax"):
        res = False
    elif kind == "tifa":
        issues = tifa_analysis(report=r).issues.get("initialization_problem", [])
        res = [f.location.line for f in issues if f.fields.get("name") == "undefined_name"] == [want]
    elif kind == "call":
        run(report=r)
        call("boom", 3, report=r)
        fbs = [f for f in r.feedback if f.category in ("runtime", "specification") and f.label == "zero_division_error"]
        res = (len(fbs) == 1 and fbs[0].location is not None and fbs[0].location.line == want
               and ("Line %d of file" % want) in fbs[0].message)
        stop_sections(report=r)
        return res and r.submission.main_code == full
    else:
        run(report=r)
        fbs = [f for f in r.feedback if f.category == "runtime"]
        res = (len(fbs) == 1 and fbs[0].location is not None and fbs[0].location.line == want
               and ("Line %d of file" % want) in fbs[0].message)
    stop_sections(report=r)
    return res and r.submission.main_code == full


def stub_canary():
    """True iff sections are still split through the stubbed `re` name and verify() through the stubbed `ast` name."""
    r = Report()
    contextualize_report("ab", report=r)
    _parts["value"] = ["a", "", "b"]
    used = _parts["used"]
    try:
        separate_into_sections(report=r)
        return _parts["used"] == used + 1 and P.stub_canary()
    finally:
        _parts["value"] = None
