"""C04 - student-code failures are contained and reported, never raised into the grader."""
import sys

from engine.prelude import tick, flag, excluded, bits, PART, xh_control
from sandbox_common import stub_canary, TERMINATIONS, state, fresh, enter, use_real_stream, stub_reached
import pedal.sandbox.sandbox as SB

# label of the runtime feedback expected per termination class (documented titles of pedal.sandbox.feedbacks)
EXPECT_LABEL = {"ValueError": "value_error", "KeyError": "key_error", "KeyError()": "key_error", "IndexError()": "index_error",
                "ZeroDivisionError": "zero_division_error"}
HANDLED = [i for i, t in enumerate(TERMINATIONS) if t[2]]


def contain1(t0: bool, t1: bool, t2: bool, t3: bool, text: str, close: bool) -> bool:
    """
    One execution (entry point = partition: 0 run, 1 call, 2 evaluate) whose stubbed program prints `text` and ends in
    one of the 10 handled ways, optionally closing the stream it was given first. The entry point returns normally, the failure is the sandbox's exception, exactly one
    runtime-category feedback for that class is attached (none when the program ended normally).

    pre: len(text) <= 1
    post: _
    """
    if tick():
        return True
    term = bits(t0, t1, t2, t3)
    if term >= len(TERMINATIONS) or not TERMINATIONS[term][2]:
        return True
    entry = int(PART) if PART else 0
    if excluded("C04.contain1", term=term, entry=entry, text=text, close=close):
        return True
    r, sb = fresh()
    if close:
        text = "x"
    use_real_stream(close)
    state["term"], state["text"], state["raised"], state["close"] = term, text, None, close
    so = sys.stdout
    before = len(r.feedback) + len(r.ignored_feedback)
    calls_before = state["calls"]
    try:
        try:
            enter(sb, entry)
        except Exception:
            if not stub_reached(calls_before):
                flag("stub_dead")
                return True
            return False          # the failure leaked into the grader
    finally:
        state["term"], state["close"] = 0, False
        use_real_stream(False)
        while sb._current_patches:
            sb._stop_patches()
        sys.stdout = so
    if not stub_reached(calls_before):
        flag("stub_dead")
        return True
    new = (r.feedback + r.ignored_feedback)[before:]
    name = TERMINATIONS[term][0]
    if name == "normal":
        return sb.exception is None and new == []
    raised = state["raised"]
    flag("failed")
    exc = sb.exception
    same = (exc is raised) or (name.startswith("KeyError") and type(exc).__name__ == "KeyError")
    runtime = [f for f in new if f.category == "runtime"]
    if not same or len(new) != 1 or len(runtime) != 1 or not bool(runtime[0]):
        return False
    fb = runtime[0]
    if name in EXPECT_LABEL and fb.label != EXPECT_LABEL[name]:
        return False
    return fb.fields.get("exception") is exc and type(raised).__name__ in (fb.title or "").replace(" ", "") + fb.fields.get("exception_name", "")


CODES = ["x=1\0", "(", "  x = 1", "def f(:\n  pass", "x = 1\n\ty = 2\n        z = 3"]


def compile_fail(c0: bool, c1: bool, c2: bool, e: bool) -> bool:
    """
    The student file does not compile (5 sources incl. a NUL byte, whose SyntaxError carries no position): run() and
    call-free evaluate() return normally with the SyntaxError as the sandbox's exception and one runtime-category feedback.

    pre: True
    post: _
    """
    if tick():
        return True
    k = bits(c0, c1, c2)
    if k >= len(CODES):
        return True
    real_exec = SB.exec
    r, sb = fresh(CODES[k])
    so = sys.stdout
    try:
        try:
            if e:
                sb.run()
            else:
                sb.run(CODES[k], filename="answer.py")
        except Exception:
            return False
    finally:
        while sb._current_patches:
            sb._stop_patches()
        sys.stdout = so
    new = r.feedback + r.ignored_feedback
    return (isinstance(sb.exception, SyntaxError) and len(new) == 1 and new[0].category == "runtime"
            and bool(new[0]))


def contain_reach(t0: bool, t1: bool, t2: bool, t3: bool) -> bool:
    """
    Reachability twin: REFUTED (a runtime feedback is produced for a failing program).

    pre: True
    post: _
    """
    if tick():
        return True
    term = bits(t0, t1, t2, t3)
    if term >= len(TERMINATIONS) or not TERMINATIONS[term][2]:
        return True
    r, sb = fresh()
    state["term"], state["text"] = term, ""
    so = sys.stdout
    try:
        try:
            sb.run()
        except Exception:
            return True
    finally:
        state["term"] = 0
        while sb._current_patches:
            sb._stop_patches()
        sys.stdout = so
    return len(r.feedback) == 0


def contain_threaded(t0: bool, t1: bool, t2: bool, t3: bool, e0: bool, e1: bool) -> bool:
    """
    As contain1 with threaded=True (pedal's real worker thread; the stubbed program runs in it untraced, so the printed
    text is concrete here). No timeout occurs: the stub returns at once.

    pre: True
    post: _
    """
    if tick():
        return True
    term, entry = bits(t0, t1, t2, t3), bits(e0, e1)
    if term >= len(TERMINATIONS) or not TERMINATIONS[term][2] or entry >= 3:
        return True
    if TERMINATIONS[term][0] in ("RecursionError",):
        return True
    r, sb = fresh()
    sb.threaded = True
    state["term"], state["text"], state["raised"] = term, "x", None
    so = sys.stdout
    try:
        try:
            enter(sb, entry)
        except Exception:
            return False
    finally:
        state["term"] = 0
        while sb._current_patches:
            sb._stop_patches()
        sys.stdout = so
    new = r.feedback + r.ignored_feedback
    name = TERMINATIONS[term][0]
    if name == "normal":
        return sb.exception is None and new == [] and sb.raw_output == "x"
    runtime = [f for f in new if f.category == "runtime"]
    return (sb.exception is not None and type(sb.exception).__name__ == type(state["raised"]).__name__
            and len(new) == 1 and len(runtime) == 1 and sb.raw_output == "x")
