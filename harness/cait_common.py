"""Shared pieces for the CAIT properties C10 / C11: student-tree shapes with symbolic leaves, and the witness checker
(written against the property statement, not against pedal's matcher)."""
import ast
import re

from pedal.cait.cait_node import CaitNode
from pedal.cait.stretchy_tree_matching import StretchyTreeMatcher
from pedal.core.report import Report
from pedal.core.commands import contextualize_report

VAR_RE = re.compile(r"^_[^_].*_$")
EXP_RE = re.compile(r"^__.*__$")
WILD_RE = re.compile(r"^___$")


def N(i, ctx=None, line=1):
    return ast.Name(id=i, ctx=ctx or ast.Load(), lineno=line, col_offset=0)


def S(i, line=1):
    return ast.Name(id=i, ctx=ast.Store(), lineno=line, col_offset=0)


def K(v, line=1):
    return ast.Constant(value=v, lineno=line, col_offset=0)


def mod(*stmts):
    m = ast.Module(body=list(stmts), type_ignores=[])
    ast.fix_missing_locations(m)
    return m


def assign(target, value, line=1):
    return ast.Assign(targets=[S(target, line)], value=value, lineno=line, col_offset=0)


# ---- student shapes: (n1, n2, n3: identifiers; c1, c2: constants) -> ast.Module ------------------------------------
def shape_binop_add(n1, n2, n3, c1, c2):       # n1 = n2 + c1
    return mod(assign(n1, ast.BinOp(left=N(n2), op=ast.Add(), right=K(c1), lineno=1, col_offset=0)))


def shape_binop_mult(n1, n2, n3, c1, c2):      # n1 = c1 * n2
    return mod(assign(n1, ast.BinOp(left=K(c1), op=ast.Mult(), right=N(n2), lineno=1, col_offset=0)))


def shape_binop_sub(n1, n2, n3, c1, c2):       # n1 = n2 - n3
    return mod(assign(n1, ast.BinOp(left=N(n2), op=ast.Sub(), right=N(n3), lineno=1, col_offset=0)))


def shape_augassign(n1, n2, n3, c1, c2):       # n1 += c1
    return mod(ast.AugAssign(target=S(n1), op=ast.Add(), value=K(c1), lineno=1, col_offset=0))


def shape_if(n1, n2, n3, c1, c2):              # if n1 < c1: n2 = c2  else: n3 = n1
    test = ast.Compare(left=N(n1), ops=[ast.Lt()], comparators=[K(c1)], lineno=1, col_offset=0)
    return mod(ast.If(test=test, body=[assign(n2, K(c2, 2), 2)], orelse=[assign(n3, N(n1, line=4), 4)],
                      lineno=1, col_offset=0))


def shape_for(n1, n2, n3, c1, c2):             # for n1 in n2: n3 = n3 + n1
    body = assign(n3, ast.BinOp(left=N(n3, line=2), op=ast.Add(), right=N(n1, line=2), lineno=2, col_offset=0), 2)
    return mod(ast.For(target=S(n1), iter=N(n2), body=[body], orelse=[], lineno=1, col_offset=0))


def shape_call(n1, n2, n3, c1, c2):            # n1(n2, c1)
    return mod(ast.Expr(value=ast.Call(func=N(n1), args=[N(n2), K(c1)], keywords=[], lineno=1, col_offset=0),
                        lineno=1, col_offset=0))


def shape_method(n1, n2, n3, c1, c2):          # n1.n2(c1)
    f = ast.Attribute(value=N(n1), attr=n2, ctx=ast.Load(), lineno=1, col_offset=0)
    return mod(ast.Expr(value=ast.Call(func=f, args=[K(c1)], keywords=[], lineno=1, col_offset=0), lineno=1, col_offset=0))


def shape_while(n1, n2, n3, c1, c2):           # while n1 > c1: n1 = n1 - c2
    test = ast.Compare(left=N(n1), ops=[ast.Gt()], comparators=[K(c1)], lineno=1, col_offset=0)
    body = assign(n1, ast.BinOp(left=N(n1, line=2), op=ast.Sub(), right=K(c2, 2), lineno=2, col_offset=0), 2)
    return mod(ast.While(test=test, body=[body], orelse=[], lineno=1, col_offset=0))


def shape_three(n1, n2, n3, c1, c2):           # n1 = c1 / n2 = c2 / n3(n1)
    return mod(assign(n1, K(c1), 1), assign(n2, K(c2, 2), 2),
               ast.Expr(value=ast.Call(func=N(n3, line=3), args=[N(n1, line=3)], keywords=[], lineno=3, col_offset=0),
                        lineno=3, col_offset=0))


def shape_def(n1, n2, n3, c1, c2):             # def n1(n2): return n2 + c1
    args = ast.arguments(posonlyargs=[], args=[ast.arg(arg=n2, annotation=None, lineno=1, col_offset=0)], vararg=None,
                         kwonlyargs=[], kw_defaults=[], kwarg=None, defaults=[])
    ret = ast.Return(value=ast.BinOp(left=N(n2, line=2), op=ast.Add(), right=K(c1, 2), lineno=2, col_offset=0),
                     lineno=2, col_offset=0)
    return mod(ast.FunctionDef(name=n1, args=args, body=[ret], decorator_list=[], returns=None, lineno=1, col_offset=0,
                               type_params=[]))


def shape_for_other(n1, n2, n3, c1, c2):       # for n1 in n2: n3 = n3 + n2   (the body does NOT read the loop variable)
    body = assign(n3, ast.BinOp(left=N(n3, line=2), op=ast.Add(), right=N(n2, line=2), lineno=2, col_offset=0), 2)
    return mod(ast.For(target=S(n1), iter=N(n2), body=[body], orelse=[], lineno=1, col_offset=0))


def shape_four(n1, n2, n3, c1, c2):            # n1 = c1 / n2 = n2 + c2 / n3(n1) / n1 = n1 + c2
    return mod(assign(n1, K(c1), 1),
               assign(n2, ast.BinOp(left=N(n2, line=2), op=ast.Add(), right=K(c2, 2), lineno=2, col_offset=0), 2),
               ast.Expr(value=ast.Call(func=N(n3, line=3), args=[N(n1, line=3)], keywords=[], lineno=3, col_offset=0),
                        lineno=3, col_offset=0),
               assign(n1, ast.BinOp(left=N(n1, line=4), op=ast.Add(), right=K(c2, 4), lineno=4, col_offset=0), 4))


def shape_call3(n1, n2, n3, c1, c2):           # f(n1, n2 + c1, g(n1), n3 + c1)
    args = [N(n1), ast.BinOp(left=N(n2), op=ast.Add(), right=K(c1), lineno=1, col_offset=0),
            ast.Call(func=N("g"), args=[N(n1)], keywords=[], lineno=1, col_offset=0),
            ast.BinOp(left=N(n3), op=ast.Add(), right=K(c1), lineno=1, col_offset=0)]
    return mod(ast.Expr(value=ast.Call(func=N("f"), args=args, keywords=[], lineno=1, col_offset=0), lineno=1, col_offset=0))


SHAPES = [shape_binop_add, shape_binop_mult, shape_binop_sub, shape_augassign, shape_if, shape_for, shape_call,
          shape_method, shape_while, shape_three, shape_def, shape_for_other, shape_four, shape_call3]


def run_matcher(pattern, tree):
    r = Report()
    contextualize_report("pass", report=r)
    root = CaitNode(tree, report=r)
    matcher = StretchyTreeMatcher(pattern, report=r)
    return matcher.find_matches(root), matcher, root


# ---- witness checker -------------------------------------------------------------------------------------------------
def placeholder_kind(node):
    """'var' | 'exp' | 'wild' | None for a pattern ast node."""
    if isinstance(node, ast.Expr) and isinstance(node.value, ast.Name):
        i = node.value.id
        if WILD_RE.match(i):
            return "wild"
        if EXP_RE.match(i):
            return "exp"
        return None
    if isinstance(node, ast.Pass):
        return "wild"          # `pass` in a pattern stands for "any statement" (pedal's own test_pass relies on it)
    if isinstance(node, ast.Name):
        i = node.id
        if WILD_RE.match(i):
            return "wild"
        if EXP_RE.match(i):
            return "exp"
        if VAR_RE.match(i):
            return "var"
    return None


def _prim(v):
    return isinstance(v, (int, float, str, bool, bytes))


def check_match(m):
    """True iff the AstMap is a genuine embedding by the statement of C10."""
    var_ids = {}
    for ins, std in m.mappings.items():
        a, b = ins.astNode, std.astNode
        kind = placeholder_kind(a)
        if kind == "var":
            if not isinstance(b, ast.Name):
                return False
            if a.id in var_ids and var_ids[a.id] != b.id:
                return False
            var_ids[a.id] = b.id
        elif kind in ("exp", "wild"):
            pass
        else:
            if type(a).__name__ != type(b).__name__:
                return False
            for field, val in ast.iter_fields(a):
                if _prim(val) or (val is None and isinstance(a, ast.Constant) and field == "value"):
                    # identifier-valued fields may themselves be placeholders (def _f_(...), _o_._m_(), ___.attr)
                    if field in ("name", "arg", "attr") and isinstance(val, str) and (
                            VAR_RE.match(val) or WILD_RE.match(val) or EXP_RE.match(val)):
                        continue
                    other = getattr(b, field, None)
                    if type(val) is not type(other) or val != other:
                        return False
        if kind in ("exp", "wild"):
            continue
        # mapped children are direct children of the partner, in order (operands of + and * may swap)
        idxs = []
        for c in ins.children:
            if c in m.mappings:
                p = m.mappings[c]
                if p.parent is not std:
                    return False
                idxs.append(std.children.index(p))
        commutative = isinstance(a, ast.BinOp) and isinstance(a.op, (ast.Add, ast.Mult))
        if not commutative and any(x >= y for x, y in zip(idxs, idxs[1:])):
            return False
        if commutative and len(set(idxs)) != len(idxs):
            return False
    # symbol table: every _v_ bound to one identifier; every __e__ bound to the node standing at its position
    for key, syms in m.symbol_table.items():
        ids = [s.id for s in syms.my_list]
        if any(i != ids[0] for i in ids):
            return False
    for key, node in m.exp_table.items():
        partners = [std for ins, std in m.mappings.items()
                    if placeholder_kind(ins.astNode) == "exp" and
                    (ins.astNode.id if isinstance(ins.astNode, ast.Name) else ins.astNode.value.id) == key]
        if partners and not any(p is node for p in partners):
            return False
    if m.match_root is None:
        return False
    return True
