"""C05 - whatever the sandbox patches is restored after every execution, however it ends."""
import sys
import time

from engine.prelude import tick, flag, excluded, bits, PART, xh_control
from sandbox_common import stub_canary, TERMINATIONS, state, fresh, enter, use_real_stream, stub_reached
import pedal.sandbox.sandbox as SB

_REAL_RUNTIME_ERROR = SB.runtime_error


def _internal_fault(*a, **k):
    """Stands for pedal itself failing while it records the student's failure."""
    raise RuntimeError("internal error while building the runtime feedback")


def _set_fault(on):
    SB.runtime_error = _internal_fault if on else _REAL_RUNTIME_ERROR


_MODULE_TABLE = sys.modules


def _snapshot():
    return sys.stdout, time.sleep, set(sys.modules)


def _restored(sb, snap):
    so, sl, mods = snap
    return (sys.stdout is so and time.sleep is sl and set(sys.modules) == mods
            and sys.modules is _MODULE_TABLE and sys.modules.get("colorsys") is _COLORSYS
            and sb._current_patches == [] and sb._current_stdout == [])


import colorsys as _COLORSYS  # noqa


def _cleanup(sb, snap):
    """Undo leaked patches so that one path cannot poison the next."""
    guard = 0
    while sb._current_patches and guard < 10:
        sb._stop_patches()
        guard += 1
    del sb._current_stdout[:]
    sys.stdout = snap[0]
    time.sleep = snap[1]
    sys.modules = _MODULE_TABLE
    sys.modules["colorsys"] = _COLORSYS
    sys.modules.pop("verif_fake_module", None)


def restore1(t0: bool, t1: bool, t2: bool, t3: bool, text: str, fault: bool, close: bool, nest: bool) -> bool:
    """
    One execution through run / call / evaluate (= first partition component) whose (stubbed) program prints `text` and terminates in the way chosen
    from the 13-entry menu (normal, Exception subclasses incl. broken __str__/__repr__, SystemExit, RecursionError,
    KeyboardInterrupt, GeneratorExit, a direct BaseException subclass); `fault` makes pedal's own feedback construction
    raise (for exception classes without a dedicated feedback class); `close` makes the program close the stream it
    was given before it terminates; `nest` makes it trigger a nested evaluate() on the same sandbox; partition "entry,tamper": tamper 1/2/3 makes it delete / rebind / add an entry of sys.modules, 4 rebind sys.modules itself. Whether the call returns or raises, the borrowed
    process state is back and the sandbox's stacks are empty.

    pre: len(text) <= 1
    post: _
    """
    if tick():
        return True
    entry, tamper = [int(x) for x in (PART or "0,0").split(",")]
    term = bits(t0, t1, t2, t3)
    if term >= len(TERMINATIONS) or entry >= 3:
        return True
    if excluded("C05.restore1", term=term, entry=entry, text=text, fault=fault):
        return True
    r, sb = fresh()
    if close:
        text = "x"
    use_real_stream(close)
    state["nest"] = sb if (nest and not close) else None
    state["term"], state["text"], state["close"], state["tamper"] = term, text, close, tamper
    snap = _snapshot()
    _set_fault(fault)
    calls_before = state["calls"]
    try:
        try:
            enter(sb, entry)
        except BaseException as e:  # noqa
            if xh_control(e):
                raise
            flag("propagated")
        if not stub_reached(calls_before):
            flag("stub_dead")
            return True
        return _restored(sb, snap)
    finally:
        state["term"], state["close"], state["tamper"], state["nest"] = 0, False, 0, None
        use_real_stream(False)
        _set_fault(False)
        _cleanup(sb, snap)


TRACER_STYLES = ["none", "native", "calls", "coverage"]


def _mine(frame, event, arg):
    """A trace function that was installed before pedal ran (a debugger, a coverage run, a profiler)."""
    return None


def restore_trace(t0: bool, t1: bool, t2: bool, t3: bool, n0: bool, n1: bool, preinstalled: bool) -> bool:
    """
    The trace function: the sandbox runs with tracer style = second partition component (none / native / calls / coverage)
    while a trace function of the host process is (or is not) installed; the program ends as chosen from the menu and may
    first trigger a nested execution (an instructor callable evaluating on the same sandbox / an `import helper` of another
    file of the submission, run by pedal's import hook). After the call returned or raised, sys.gettrace() is what it was before, and the rest of the borrowed state is back too.

    pre: True
    post: _
    """
    if tick():
        return True
    entry, style = [int(x) for x in (PART or "0,2").split(",")]
    term = bits(t0, t1, t2, t3)
    if term >= len(TERMINATIONS):
        return True
    nest = bits(n0, n1)
    if nest == 3:
        return True
    if excluded("C05.restore_trace", entry=entry, style=style, term=term, nest=nest, preinstalled=preinstalled):
        return True
    preinstalled = True if preinstalled else False     # decide every symbolic bit while still tracing
    from crosshair.tracers import NoTracing
    with NoTracing():
        return _restore_trace(entry, style, term, nest, preinstalled)


def _restore_trace(entry, style, term, nest, preinstalled):
    import os
    import tempfile
    cov_file = os.path.join(tempfile.gettempdir(), "verif_c05_coverage_%d" % os.getpid())
    os.environ["COVERAGE_FILE"] = cov_file          # the 'coverage' style writes its data file: keep it out of the cwd
    try:
        return _restore_trace_body(entry, style, term, nest, preinstalled)
    finally:
        for f in (cov_file,):
            try:
                os.remove(f)
            except OSError:
                pass


def _restore_trace_body(entry, style, term, nest, preinstalled):
    r, sb = fresh()
    sb.tracer_style = TRACER_STYLES[style]
    state["nest"] = sb if nest == 1 else None
    state["nest_import"] = nest == 2
    state["term"], state["text"] = term, "x"
    snap = _snapshot()
    before = sys.gettrace()
    if preinstalled:
        sys.settrace(_mine)
    want = sys.gettrace()
    calls_before = state["calls"]
    try:
        try:
            enter(sb, entry)
        except BaseException as e:  # noqa
            if xh_control(e):
                raise
        after = sys.gettrace()
        if not stub_reached(calls_before):
            flag("stub_dead")
            return True
        return after is want and _restored(sb, snap)
    finally:
        sys.settrace(before)
        state["term"], state["nest"], state["nest_import"] = 0, None, False
        _cleanup(sb, snap)


def restore2(text1: str, text2: str) -> bool:
    """
    Two executions (partition "term,entry1,entry2"): the first ends as chosen, the second ends normally and must capture
    exactly what it printed; state restored after each.

    pre: len(text1) <= 1 and len(text2) <= 1
    post: _
    """
    if tick():
        return True
    term, e1, e2 = [int(x) for x in (PART or "10,0,1").split(",")]
    r, sb = fresh()
    snap = _snapshot()
    try:
        state["term"], state["text"] = term, text1
        try:
            enter(sb, e1)
        except BaseException as e:  # noqa
            if xh_control(e):
                raise
        ok = _restored(sb, snap)
        raw_before = sb.raw_output
        state["term"], state["text"] = 0, text2
        try:
            enter(sb, e2)
        except BaseException as e:  # noqa
            if xh_control(e):
                raise
            return False
        return (ok and _restored(sb, snap) and sb.raw_output == raw_before + text2
                and sb._context[-1].output == text2)
    finally:
        state["term"] = 0
        _cleanup(sb, snap)


def restore_reach(t0: bool, t1: bool, t2: bool, t3: bool) -> bool:
    """
    Reachability twin: REFUTED (a non-Exception termination propagates out of run()).

    pre: True
    post: _
    """
    if tick():
        return True
    term = bits(t0, t1, t2, t3)
    if term >= len(TERMINATIONS):
        return True
    r, sb = fresh()
    state["term"], state["text"] = term, "x"
    snap = _snapshot()
    try:
        try:
            sb.run()
        except BaseException as e:  # noqa
            if xh_control(e):
                raise
            return False
        return True
    finally:
        state["term"] = 0
        _cleanup(sb, snap)
