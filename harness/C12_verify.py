"""C12 - verify() vs CPython's parser.  The parser call inside pedal.source.source is replaced (harness process
only) by a stub that either delegates to the real ast.parse or raises a SyntaxError / IndentationError / TabError
whose position attributes are symbolic, constrained to the attribute SHAPES that CPython really produces
(harvested at check time by props/C12.py and handed over in VERIF_SHAPES)."""
import ast as real_ast
import json
import os
from typing import Optional

from engine.prelude import tick, flag, excluded, bits, PART
import pedal.source.source as SRC
from pedal.core.report import Report
from pedal.core.submission import Submission
from pedal.source.source import verify

SHAPES = set(tuple(s) for s in json.loads(os.environ.get("VERIF_SHAPES", "[]")))
if not SHAPES:   # stand-alone use: the shapes CPython 3.12 produced on the reference corpus
    SHAPES = {("in", ">0", "in", "-1"), ("None", "None", "None", "None"), ("in", ">0", "in", "0"),
              ("in", ">0", "in", ">0"), ("in", "0", "in", "-1")}
EXC = [SyntaxError, IndentationError, TabError]
MSGS = ["invalid syntax", "unexpected indent", "source code string cannot contain null bytes"]
FILES = ["a", "a\nb", "a\nb\nc"]


def _cls(v, kind, n):
    if v is None:
        return "None"
    if kind == "line":
        return "<=0" if v <= 0 else ("in" if v <= n else ("n+1" if v == n + 1 else ">n+1"))
    return "-1" if v == -1 else ("0" if v == 0 else (">0" if v > 0 else "<-1"))


def shape_ok(lineno, offset, end_lineno, end_offset, n):
    sh = (_cls(lineno, "line", n), _cls(offset, "off", n), _cls(end_lineno, "line", n), _cls(end_offset, "off", n))
    if sh not in SHAPES:
        return False
    if lineno is not None and end_lineno is not None and end_lineno < lineno:
        return False
    return True


_state = {"raise": None, "returned": None}


class _ParserStub:
    """Stands in for the module `ast` inside pedal.source.source."""

    def __getattr__(self, name):
        return getattr(real_ast, name)

    def parse(self, code, filename="<unknown>", *a, **k):
        if _state["raise"] is not None and code != "":
            exc = _state["raise"]
            _state["raise"] = None
            raise exc
        tree = real_ast.parse(code, filename, *a, **k)
        if code != "":
            _state["returned"] = tree
        return tree


SRC.ast = _ParserStub()


def _setup(nfile, sec_off):
    r = Report()
    code = FILES[nfile]
    r.contextualize(Submission({"answer.py": code}, "answer.py", code))
    if sec_off:
        r.submission.set_line_offset(sec_off)
    return r, code


def _p(i, default):
    return int(PART.split(",")[i]) if PART else default


def rejects(lineno: Optional[int], offset: Optional[int], end_lineno: Optional[int], end_offset: Optional[int],
            muted: bool, has_text: bool) -> bool:
    """
    The parser raises: verify() returns False without raising, attaches exactly one syntax-category feedback of the
    right class on line (reported line + section offset), stores an empty tree.

    Partition "kind,nfile,sec_off": exception class (SyntaxError / IndentationError / TabError), file of 1..3 lines,
    section offset 0..2; position attributes symbolic within the harvested shapes.

    pre: shape_ok(lineno, offset, end_lineno, end_offset, _p(1, 1) + 1)
    pre: (offset is None or offset <= 3) and (end_offset is None or end_offset <= 4)
    post: _
    """
    if tick():
        return True
    kind, nfile, sec_off = _p(0, 0), _p(1, 1), _p(2, 1)
    msg = kind
    if excluded("C12.rejects", kind=kind, lineno=lineno, offset=offset, end_lineno=end_lineno,
                end_offset=end_offset, nfile=nfile, sec_off=sec_off, muted=muted):
        return True
    r, code = _setup(nfile, sec_off)
    text = (code.split("\n")[lineno - 1] if (has_text and lineno is not None) else None)
    exc = EXC[kind](MSGS[msg], ("answer.py", lineno, offset, text, end_lineno, end_offset))
    _state["raise"] = exc
    before = len(r.feedback) + len(r.ignored_feedback)
    try:
        res = verify(report=r, muted=muted)
        consumed = _state["raise"] is None
    finally:
        _state["raise"] = None
    if not consumed:
        flag("stub_dead")              # verify() no longer parses through the stubbed `ast` name
        return True
    new = r.feedback + r.ignored_feedback
    syn = [f for f in new if f.category == "syntax"]
    if res is not False or len(new) != before + 1 or len(syn) != 1:
        return False
    fb = syn[0]
    want_label = "syntax_error" if kind == 0 else "indentation_error"
    line = (lineno if lineno is not None else 1) + sec_off
    tree = r["source"]["ast"]
    return (fb.label == want_label and bool(fb) and fb.location.line == line and fb.fields["lineno"] == line
            and ("on line %d" % line) in fb.message and bool(fb.muted) == muted
            and r["source"]["success"] is False and isinstance(tree, real_ast.Module) and tree.body == [])


def refuses(pos: int, k0: bool, k1: bool, n0: bool, n1: bool, s0: bool, s1: bool, muted: bool) -> bool:
    """
    The parser refuses the text WITHOUT a SyntaxError - UnicodeEncodeError at a symbolic position (what CPython raises for a
    lone surrogate), RecursionError (expression nested too deeply for the AST builder), plain ValueError (the NUL-byte
    refusal of older CPythons), MemoryError (CPython's 'too complex to parse'): verify() still returns False without raising, attaches exactly one triggered
    syntax-category feedback located on a line of the file (CPython names no line), and stores an empty tree.

    pre: 0 <= pos <= 6
    post: _
    """
    if tick():
        return True
    kind, nfile, sec_off = bits(k0, k1), bits(n0, n1), bits(s0, s1)
    if nfile >= 3 or sec_off >= 3:
        return True
    r, code = _setup(nfile, sec_off)
    if kind == 0:
        if pos >= len(code):
            return True
        exc = UnicodeEncodeError("utf-8", code, pos, pos + 1, "surrogates not allowed")
    elif kind == 1:
        exc = RecursionError("maximum recursion depth exceeded during ast construction")
    elif kind == 2:
        exc = ValueError("source code string cannot contain null bytes")
    else:
        exc = MemoryError("Parser stack overflowed - Python source too complex to parse")
    _state["raise"] = exc
    before = len(r.feedback) + len(r.ignored_feedback)
    try:
        res = verify(report=r, muted=muted)
        consumed = _state["raise"] is None
    finally:
        _state["raise"] = None
    if not consumed:
        flag("stub_dead")
        return True
    new = r.feedback + r.ignored_feedback
    syn = [f for f in new if f.category == "syntax"]
    if res is not False or len(new) != before + 1 or len(syn) != 1:
        return False
    fb, tree, nlines = syn[0], r["source"]["ast"], nfile + 1
    return (bool(fb) and bool(fb.muted) == muted and 1 + sec_off <= fb.location.line <= nlines + sec_off
            and r["source"]["success"] is False and isinstance(tree, real_ast.Module) and tree.body == [])


def accepts(n0: bool, n1: bool, s0: bool, s1: bool, blank: bool) -> bool:
    """
    The parser accepts: no syntax feedback (blank text, verified AFTER a non-blank program on the same report: exactly the
    blank_source feedback and the stored tree is the empty module, not the earlier program's), the stored tree is the
    parser's own object.

    pre: True
    post: _
    """
    if tick():
        return True
    nfile, sec_off = bits(n0, n1), bits(s0, s1)
    if nfile >= 3 or sec_off >= 3:
        return True
    r, code = _setup(nfile, sec_off)
    if blank:
        # history: the report has already verified a non-blank program; then the text becomes blank
        verify(report=r)
        if not isinstance(r["source"]["ast"], real_ast.Module) or not r["source"]["ast"].body:
            return False
        code = ["", " ", "\n \t\n"][nfile]
        r.submission.replace_main(code)
    _state["returned"] = None
    res = verify(report=r)
    new = r.feedback + r.ignored_feedback
    if blank:
        tree = r["source"]["ast"]          # the stored tree is CPython's tree for the blank text: an empty module
        return (len(new) == 1 and new[0].label == "blank_source" and new[0].category == "syntax" and bool(new[0])
                and isinstance(tree, real_ast.Module) and tree.body == [])
    return (res is True and new == [] and r["source"]["ast"] is _state["returned"]
            and r["source"]["success"] is True)


def rejects_reach(lineno: Optional[int], s0: bool) -> bool:
    """
    Reachability twin: REFUTED (a syntax feedback is produced in a shifted section).

    pre: lineno is None or 1 <= lineno <= 2
    post: _
    """
    if tick():
        return True
    r, code = _setup(1, 2 if s0 else 0)
    _state["raise"] = SyntaxError("invalid syntax", ("answer.py", lineno, 1, None, lineno, 2))
    try:
        verify(report=r)
    except Exception:
        return True
    finally:
        _state["raise"] = None
    return not (len(r.feedback) == 1 and r.feedback[0].location.line == 4)


def stub_canary():
    """True iff verify() still parses through the stubbed `ast` name of pedal.source.source."""
    r, code = _setup(1, 0)
    _state["raise"] = SyntaxError("invalid syntax", ("answer.py", 1, 1, None, 1, 2))
    try:
        verify(report=r)
        return _state["raise"] is None
    finally:
        _state["raise"] = None


# ---------------------------------------------------------------------------------------------
# Real sources through the REAL parser (stub bypassed): verify() must agree with CPython on accept / reject, on the
# reported line, and store CPython's own tree. The menu is enumerated by the solver; each body runs untraced.
REAL_SOURCES = [
    "x = 1\nprint(x)\n", "def f(a):\n    return a + 1\n", "x = (1 +\n", "if x:\nprint(x)\n", "  x = 1\n", "x = 1\n\ty = 2\n        z = 3\n",
    "x = 1\0", "a = 1\rb = 2\rc = (\r", "a = 1\r\nb = 2\r\nc = (\r\n", "x = 1\x0cy = 2 2\n", "\u00e9 = 1\nprint(\u00e9)\n", "s = '''a\nb\n",
    "x = 1  # type: int\n", "x = [  # type: int\n    1]\n", "def f(a):\n    # type: (int) -> int\n    return a\n", "print('a' 'b'\n",
    "def f(x):\n    if x:\nreturn 1\n", "x = 1\ny = 2\n@property", "class A:\n    def m(self):\n        pass\n  x = 1\n", "",
    "   \n\t\n", "x = 1;;\n", "lambda: (yield)\n", "f(**a, *b)\n", "x = 0777\n", "print 'hi'\n", "x = 1 if else 2\n",
    "for i in range(3):\n    pass\nelse:\n    pass\n", "a = 1\n\n\n\n\nb = )\n", "match x:\n    case 1:\n        pass\n",
    "def f():\n\tif 1:\n\t\tpass\n\telse:\n\t    pass\n", "x = '\\N{DOES NOT EXIST}'\n",
    # texts the parser refuses without a SyntaxError: lone surrogates (UnicodeEncodeError), very deep expressions (RecursionError)
    "a = '\ud800'\n", "x = 1\n# \udc80\n", "x = 1\ny = " + "+".join(["1"] * 3000) + "\n", "x = " + "-" * 3000 + "1\n",
    "x = y" + ".a" * 3000 + "\n", "x = " + "(" * 300 + ")" * 300 + "\n", "x = " + "-" * 100000 + "1\n",
    "a = 1\rb b", "a = 1\rb = 2\rprint(a b)\r", "\xa0", "x = 1\n\x0c\ny = (\n",
]


def real_sources(k0: bool, k1: bool, k2: bool, k3: bool, k4: bool, k5: bool, offset2: bool) -> bool:
    """
    44 concrete sources (valid programs; texts refused without a SyntaxError - lone surrogates, very deep expressions; errors of every harvested shape; NUL, CR, CRLF, form feed, non-ASCII identifiers,
    type comments, tabs vs spaces, unterminated strings, bad escapes) through the real verify(): never raises; a
    syntax-category error feedback iff ast.parse rejects the text; its line is CPython's line (+ the section offset); on
    acceptance the stored tree equals CPython's and no syntax feedback exists (blank text: blank_source).

    pre: True
    post: _
    """
    if tick():
        return True
    k = bits(k0, k1, k2, k3, k4, k5)
    if k >= len(REAL_SOURCES):
        return True
    from crosshair.tracers import NoTracing
    offset = 2 if offset2 else 0
    with NoTracing():
        return _real_source(REAL_SOURCES[k], offset)


def explicit_file(k0: bool, k1: bool, k2: bool, k3: bool, k4: bool, k5: bool) -> bool:
    """
    The same texts handed to verify(code, filename="other.py", report=r) EXPLICITLY while r's submission is a different,
    valid three-line main file: never raises; a syntax-category error feedback iff ast.parse rejects the given text; its
    line is CPython's line; on acceptance the stored tree equals CPython's.

    pre: True
    post: _
    """
    if tick():
        return True
    k = bits(k0, k1, k2, k3, k4, k5)
    if k >= len(REAL_SOURCES):
        return True
    from crosshair.tracers import NoTracing
    with NoTracing():
        return _real_source(REAL_SOURCES[k], 0, explicit=True)


def _real_source(code, offset, explicit=False):
    import warnings
    saved = SRC.ast
    SRC.ast = real_ast                      # bypass the parser stub for this obligation
    try:
        try:
            with warnings.catch_warnings():
                warnings.simplefilter("ignore")
                want_tree, want_err = real_ast.parse(code, "answer.py"), None
        except SyntaxError as e:
            want_tree, want_err = None, e
        except (ValueError, RecursionError, MemoryError) as e:         # refused without a SyntaxError (and without a line)
            want_tree, want_err = None, SyntaxError(str(e))
        r = Report()
        if explicit:
            main = "a = 1\nb = 2\nc = 3"
            r.contextualize(Submission({"answer.py": main}, "answer.py", main))
        else:
            r.contextualize(Submission({"answer.py": code}, "answer.py", code))
        if offset:
            r.submission.set_line_offset(offset)
        with warnings.catch_warnings():
            warnings.simplefilter("ignore")
            res = verify(code, filename="other.py", report=r) if explicit else verify(report=r)
        errs = [f for f in r.feedback + r.ignored_feedback if f.label in ("syntax_error", "indentation_error")]
        if want_err is None:
            if errs:
                return False
            if code.strip() == "":
                return any(f.label == "blank_source" for f in r.feedback)
            return res is True and real_ast.dump(r["source"]["ast"]) == real_ast.dump(want_tree)
        if res is not False or len(errs) != 1 or not bool(errs[0]):
            return False
        if want_err.lineno is None:
            return True                         # CPython itself reports no line for this error
        return errs[0].location.line == want_err.lineno + offset
    finally:
        SRC.ast = saved
