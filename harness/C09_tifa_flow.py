"""C09 - TIFA's initialization / unused-variable diagnoses match the execution paths.

TIFA's flow analysis is a per-variable three-valued abstract interpretation. Following the 'one step from an arbitrary
valid state' recipe: the abstract pre-state of variable x (present?, set, read in {yes, no, maybe}) is SYMBOLIC, the real
Tifa.visit runs a statement block (from a menu), and a small reference interpreter executes the same block on every
element of the concretisation of the pre-state and every combination of branch outcomes."""
import ast

from engine.prelude import tick, flag, excluded, bits, PART
from pedal.core.report import Report
from pedal.core.submission import Submission
from pedal.tifa.tifa_visitor import Tifa
from pedal.tifa.tifa_core import TifaAnalysis
from pedal.tifa.state import State
from pedal.types.new_types import IntType

ATOMS = ["x = 1", "print(x)", "y = x", "x = x + 1", "pass", "print(c)", "print(z, x)"]   # z is never assigned


def _ind(s, n=1):
    return "\n".join("    " * n + ln for ln in s.split("\n"))


def block_text(shape, a, b, c, d):
    A, B, C, D = ATOMS[a], ATOMS[b], ATOMS[c], ATOMS[d]
    if shape == 0:
        return "%s\n%s" % (A, B)
    if shape == 1:
        return "if c:\n%s\n%s" % (_ind(A), C)
    if shape == 2:
        return "if c:\n%s\nelse:\n%s\n%s" % (_ind(A), _ind(B), C)
    if shape == 3:
        return "if c:\n%s\nelif d:\n%s\nelse:\n%s\n%s" % (_ind(A), _ind(B), _ind(C), D)
    if shape == 4:
        return "if c:\n    if d:\n%s\n    else:\n%s\nelse:\n%s\n%s" % (_ind(A, 2), _ind(B, 2), _ind(C), D)
    if shape == 5:
        return "if c:\n%s\nif d:\n%s\n%s" % (_ind(A), _ind(B), C)
    if shape == 6:
        return "if c:\n%s\n%s\nelse:\n%s\n%s" % (_ind(A), _ind(B), _ind(C), D)
    raise ValueError(shape)


# ---- reference interpreter over sets of concrete (assigned, read_since_assignment) pairs ------------------------------
def _reads_of_x(expr):
    return [n for n in ast.walk(expr) if isinstance(n, ast.Name) and n.id == "x" and isinstance(n.ctx, ast.Load)]


def ref_block(stmts, elems, diag):
    """elems: set of (assigned, read); diag: dict line -> list of reaching 'assigned' flags per read occurrence."""
    for st in stmts:
        if isinstance(st, ast.If):
            left = ref_block(st.body, set(elems), diag)
            right = ref_block(st.orelse, set(elems), diag)
            elems = left | right
        elif isinstance(st, ast.Pass):
            pass
        else:
            value = st.value
            for occ in _reads_of_x(value):
                diag.setdefault((occ.lineno, occ.col_offset), []).append(frozenset(a for a, r in elems))
                elems = {(a, True) for a, r in elems}
            if isinstance(st, ast.Assign) and st.targets[0].id == "x":
                elems = {(True, False)}
    return elems


def gamma(present, s, r):
    if not present:
        return {(False, False)}
    S = {"yes": [True], "no": [False], "maybe": [True, False]}[s]
    R = {"yes": [True], "no": [False], "maybe": [True, False]}[r]
    return {(a, b) for a in S for b in R}


def alpha(flags):
    flags = set(flags)
    return "yes" if flags == {True} else ("no" if flags == {False} else "maybe")


V3 = ("yes", "no", "maybe")


def _tifa(code):
    rep = Report()
    rep.contextualize(Submission({"answer.py": code}, "answer.py"))
    t = Tifa(report=rep)
    t.analysis = TifaAnalysis()
    t.line_offset = 0
    t.reset()
    for v in ("c", "d"):
        t.name_map[0]["0/" + v] = State(v, [], IntType(), "store", None, read="yes", set="yes", over="no")
    return t


def _step(shape, a, b, c, d, present, s, r):
    if excluded("C09.step", shape=shape, a=a, b=b, c=c, d=d, present=present, s=s, r=r):
        return True
    code = block_text(shape, a, b, c, d)
    tree = ast.parse(code)
    t = _tifa(code)
    if present:
        t.name_map[0]["0/x"] = State("x", [], IntType(), "store", None, read=r, set=s, over="no")
    t.node_chain.append(tree)
    for stmt in tree.body:
        t.visit(stmt)
    issues = t.analysis.issues
    got = []
    for label in ("initialization_problem", "possible_initialization_problem", "read_out_of_scope"):
        for fb in issues.get(label, []):
            if fb.fields.get("name") == "x":
                got.append(("initialization_problem" if label == "read_out_of_scope" else label, fb.location.line))
    # reference
    diag = {}
    post = ref_block(tree.body, gamma(present, s, r), diag)
    want = []
    for (line, col), reach_list in diag.items():
        # one diagnosis per read occurrence per abstract visit: TIFA visits each statement once, the reference may
        # reach it from several branch outcomes; the diagnosis is by the union of reaching flags
        flags = set()
        for fs in reach_list:
            flags |= set(fs)
        lab = alpha(flags)
        if lab == "no":
            want.append(("initialization_problem", line))
        elif lab == "maybe":
            want.append(("possible_initialization_problem", line))
    if sorted(got) != sorted(want):
        return False
    # post-state of x
    st = t.name_map[0].get("0/x")
    if st is None:
        return post == {(False, False)}
    flag("has_state")
    return st.set == alpha(a_ for a_, r_ in post) and st.read == alpha(r_ for a_, r_ in post)




def step2(present: bool, s: str, r: str, a0: bool, a1: bool, a2: bool, b0: bool, b1: bool, b2: bool) -> bool:
    """
    Two-atom blocks. Partition = shape: 0 `A / B` (sequence), 1 `if c: A / B`. Atoms from {x = 1, print(x), y = x,
    x = x + 1, pass, print(c), print(z, x)}; the abstract pre-state of x (present?, set, read) is SYMBOLIC. The issues reported for
    reads of x (label, line) and the abstract post-state of x equal what the reference interpreter computes over every
    concretisation of the pre-state and every combination of branch outcomes.

    pre: s in V3 and r in V3 and not (s == "no" and r == "no")
    post: _
    """
    if tick():
        return True
    a, b = bits(a0, a1, a2), bits(b0, b1, b2)
    if a >= 7 or b >= 7:
        return True
    shape = int(PART) if PART else 0
    return _step(shape, a, b if shape == 0 else 0, b if shape == 1 else 0, 0, present, s, r)


def step3(present: bool, s: str, r: str, b0: bool, b1: bool, b2: bool,
          c0: bool, c1: bool, c2: bool) -> bool:
    """
    Three-atom blocks. Partition = "shape,a": 2 `if c: A else: B / C`, 5 `if c: A / if d: B / C`; first atom fixed by the
    partition.

    pre: s in V3 and r in V3 and not (s == "no" and r == "no")
    post: _
    """
    if tick():
        return True
    shape, a = [int(x) for x in (PART or "2,0").split(",")]
    b, c = bits(b0, b1, b2), bits(c0, c1, c2)
    if b >= 7 or c >= 7:
        return True
    return _step(shape, a, b, c, 0, present, s, r)


def step4(present: bool, s: str, r: str, c0: bool, c1: bool, c2: bool, d0: bool, d1: bool, d2: bool) -> bool:
    """
    Four-atom blocks. Partition = "shape,a": 3 `if c: A elif d: B else: C / D`, 4 nested `if c: (if d: A else: B) else: C / D`,
    6 `if c: A; B else: C / D`; the first two atoms are fixed by the partition "shape,a,b".

    pre: s in V3 and r in V3 and not (s == "no" and r == "no")
    post: _
    """
    if tick():
        return True
    shape, a, b = [int(x) for x in (PART or "3,0,1").split(",")]
    c, d = bits(c0, c1, c2), bits(d0, d1, d2)
    if c >= 7 or d >= 7:
        return True
    return _step(shape, a, b, c, d, present, s, r)


PROGRAMS = [
    ("x = 1\nprint(x)\n", [], []),
    ("print(x)\n", [("initialization_problem", 1)], []),
    ("if c:\n    x = 1\nprint(x)\n", [("possible_initialization_problem", 3)], []),
    ("x = 1\n", [], ["x"]),
    ("x = 1\nif c:\n    print(x)\n", [], []),
    ("if c:\n    x = 1\nelse:\n    x = 2\nprint(x)\n", [], []),
    ("x = 1\nprint(x)\nx = 2\n", [], ["x"]),
    ("if c:\n    x = 1\nelif d:\n    pass\nelse:\n    x = 3\ny = x\nprint(y)\n", [("possible_initialization_problem", 7)], []),
]


def whole_program(k0: bool, k1: bool, k2: bool) -> bool:
    """
    Glue through the public API: tifa_analysis on 8 whole programs (prefixed with c = d = 0 / print) gives the
    initialization issues and the unused-variable report the path semantics dictate.

    pre: True
    post: _
    """
    if tick():
        return True
    from pedal.tifa import tifa_analysis
    from pedal.core.commands import contextualize_report
    k = bits(k0, k1, k2)
    body, want_init, want_unused = PROGRAMS[k]
    code = "c = 0\nd = 0\nprint(c, d)\n" + body
    rep = Report()
    contextualize_report(code, report=rep)
    res = tifa_analysis(report=rep)
    got = []
    for label in ("initialization_problem", "possible_initialization_problem"):
        for fb in res.issues.get(label, []):
            got.append((label, fb.location.line - 3))
    unused = sorted(fb.fields.get("name") for fb in res.issues.get("unused_variable", []))
    return sorted(got) == sorted(want_init) and unused == sorted(want_unused)


def step_reach(s: str, r: str) -> bool:
    """
    Reachability twin: REFUTED (a Possible Initialization Problem is produced from some pre-state).

    pre: s in V3 and r in V3
    post: _
    """
    if tick():
        return True
    code = "print(x)"
    tree = ast.parse(code)
    t = _tifa(code)
    t.name_map[0]["0/x"] = State("x", [], IntType(), "store", None, read=r, set=s, over="no")
    t.node_chain.append(tree)
    for stmt in tree.body:
        t.visit(stmt)
    return not t.analysis.issues.get("possible_initialization_problem")


# ---- loops and calls: the one-sided statement (no missed uninitialised read) -----------------------------------------
def ref_loop_block(kind, body_stmts, after_stmts, elems):
    """Loop body executed 0, 1 or 2 times; returns {(line, col): True if some reaching element is unassigned}."""
    unassigned_reads = {}

    def run(stmts, es):
        diag = {}
        out = ref_block(stmts, es, diag)
        for pos, lst in diag.items():
            if any(False in fs for fs in lst):
                unassigned_reads[pos] = True
            else:
                unassigned_reads.setdefault(pos, False)
        return out

    for iterations in (0, 1, 2):
        es = set(elems)
        for _ in range(iterations):
            es = run(body_stmts, es)
        run(after_stmts, es)
    return unassigned_reads


def loops(present: bool, s: str, r: str, a0: bool, a1: bool, a2: bool, b0: bool, b1: bool, b2: bool) -> bool:
    """
    `while c: A / B` (partition 0), `for i in xs: A / B` (partition 1; 2 and 3: xs assigned by the program, empty on one
    branch only) and `def f(): A / f() / B` is outside this bound.
    Every read of x that is unassigned on some execution with 0, 1 or 2 iterations is reported at its line with one of
    the initialization labels.

    pre: s in V3 and r in V3 and not (s == "no" and r == "no")
    post: _
    """
    if tick():
        return True
    kind = int(PART) if PART else 0
    a, b = bits(a0, a1, a2), bits(b0, b1, b2)
    if a >= 7 or b >= 7:
        return True
    if excluded("C09.loops", kind=kind, a=a, b=b, present=present, s=s, r=r):
        return True
    head = "while c:" if kind == 0 else "for i in xs:"
    # kind 2 / 3: the iterated list is assigned by the program itself, empty on one path only (so the loop may well run)
    prefix = {2: "if c:\n    xs = []\nelse:\n    xs = [1, 2]\n", 3: "xs = [1, 2]\nif c:\n    xs = []\n"}.get(kind, "")
    code = "%s%s\n%s\n%s" % (prefix, head, _ind(ATOMS[a]), ATOMS[b])
    tree = ast.parse(code)
    t = _tifa(code)
    from pedal.types.new_types import ListType
    if not prefix:
        t.name_map[0]["0/xs"] = State("xs", [], ListType(False, IntType()), "store", None, read="yes", set="yes", over="no")
    if present:
        t.name_map[0]["0/x"] = State("x", [], IntType(), "store", None, read=r, set=s, over="no")
    t.node_chain.append(tree)
    for stmt in tree.body:
        t.visit(stmt)
    reported = set()
    for label in ("initialization_problem", "possible_initialization_problem", "read_out_of_scope"):
        for fb in t.analysis.issues.get(label, []):
            if fb.fields.get("name") == "x":
                reported.add(fb.location.line)
    loop_at = [i for i, st in enumerate(tree.body) if isinstance(st, (ast.For, ast.While))][0]
    loop = tree.body[loop_at]
    need = ref_loop_block(kind, loop.body, tree.body[loop_at + 1:], gamma(present, s, r))
    for (line, col), unassigned in need.items():
        if unassigned and line not in reported:
            return False
    return True


FUNC_ATOMS = ["print(x)", "y = x", "pass", "print(c)"]


def calls(present: bool, s: str, r: str, c0: bool, c1: bool, c2: bool) -> bool:
    """
    Partition "a,b,d":   def f(): A  /  if c: B; f()  else: C; f()  /  D     with A from {print(x), y = x, pass, print(c)}
    reading the module-level x: every read of x (inside f at either call, or at module level) that is unassigned on some
    execution is reported at its line with one of the initialization labels.

    pre: s in V3 and r in V3 and not (s == "no" and r == "no")
    post: _
    """
    if tick():
        return True
    a, b, d = [int(v) for v in (PART or "0,0,1").split(",")]
    c = bits(c0, c1, c2)
    if c >= 7:
        return True
    if excluded("C09.calls", a=a, b=b, c=c, d=d, present=present, s=s, r=r):
        return True
    code = "def f():\n%s\nif c:\n%s\n    f()\nelse:\n%s\n    f()\n%s" % (
        _ind(FUNC_ATOMS[a]), _ind(ATOMS[b]), _ind(ATOMS[c]), ATOMS[d])
    tree = ast.parse(code)
    t = _tifa(code)
    if present:
        t.name_map[0]["0/x"] = State("x", [], IntType(), "store", None, read=r, set=s, over="no")
    t.node_chain.append(tree)
    for stmt in tree.body:
        t.visit(stmt)
    reported = set()
    for label in ("initialization_problem", "possible_initialization_problem", "read_out_of_scope"):
        for fb in t.analysis.issues.get(label, []):
            if fb.fields.get("name") == "x":
                reported.add(fb.location.line)
    fdef, branch, last = tree.body[0], tree.body[1], tree.body[2]
    need = {}
    for arm in (branch.body, branch.orelse):
        diag = {}
        seq = [arm[0]] + list(fdef.body) + [last]          # the arm's statement, the call (= body of f), then D
        ref_block(seq, gamma(present, s, r), diag)
        for pos, lst in diag.items():
            need[pos] = need.get(pos, False) or any(False in fs for fs in lst)
    for (line, col), unassigned in need.items():
        if unassigned and line not in reported:
            return False
    return True
