"""C07 layer 1 - the relation kernels: condition() of each runtime assertion class, called on operands wrapped by
pedal's own SandboxedValue, with UNBOUNDED symbolic operands (no message formatting happens on this path).
An assertion "passes" (stays silent) exactly when condition(...) is falsy."""
from typing import Dict, List, Optional, Tuple, Union

from engine.prelude import tick, flag, excluded, bits, PART
import pedal.assertions.runtime as R
from pedal.assertions.feedbacks import SandboxedValue, ExactValue
from pedal.utilities.comparisons import equality_test

Num = Union[int, float]
DELTA = 0.001


def _passes(cls, *operands, **kw):
    boxed = [SandboxedValue(o) for o in operands]
    return not cls.condition(None, *boxed, **kw)


def _finite(x):
    return x == x and x not in (float("inf"), float("-inf"))


def order_ff(a: float, b: float) -> bool:
    """
    assert_less / less_equal / greater / greater_equal on two IEEE doubles (NaN excluded: outside the property's
    quantifier): silent exactly when the Python relation holds; an assertion and its negation never agree.

    pre: a == a and b == b
    post: _
    """
    if tick():
        return True
    lt, le = _passes(R.assert_less, a, b), _passes(R.assert_less_equal, a, b)
    gt, ge = _passes(R.assert_greater, a, b), _passes(R.assert_greater_equal, a, b)
    return (lt == (a < b) and le == (a <= b) and gt == (a > b) and ge == (a >= b)
            and lt != ge and le != gt)


def order_ii(a: int, b: int) -> bool:
    """
    The same on two unbounded integers.

    pre: True
    post: _
    """
    if tick():
        return True
    lt, le = _passes(R.assert_less, a, b), _passes(R.assert_less_equal, a, b)
    gt, ge = _passes(R.assert_greater, a, b), _passes(R.assert_greater_equal, a, b)
    return (lt == (a < b) and le == (a <= b) and gt == (a > b) and ge == (a >= b)
            and lt != ge and le != gt)


# floats near the default tolerance at small and large magnitude (z3 cannot decide mixed int/float FP arithmetic in
# reach, so mixed pairs come from this grid; the all-reals statement is the E2 obligation in props/C07.py)
GRID = [0.0, 0.0005, 0.001, 0.0015, -0.0005, 1.0004, 0.9995, 2.5, 12345678.9, 12345678.905, 5e9, 5e9 + 1.5, -3.0, 1e-9]


def _grid(b0, b1, b2, b3):
    k = bits(b0, b1, b2, b3)
    return GRID[k] if k < len(GRID) else None


def order_mixed(i0: bool, i1: bool, i2: bool, b0: bool, b1: bool, b2: bool, b3: bool, swap: bool) -> bool:
    """
    small int (-3..4) x float from the grid, both operand orders.

    pre: True
    post: _
    """
    if tick():
        return True
    i = bits(i0, i1, i2) - 3
    f = _grid(b0, b1, b2, b3)
    if f is None:
        return True
    a, b = (f, i) if swap else (i, f)
    lt, le = _passes(R.assert_less, a, b), _passes(R.assert_less_equal, a, b)
    gt, ge = _passes(R.assert_greater, a, b), _passes(R.assert_greater_equal, a, b)
    return (lt == (a < b) and le == (a <= b) and gt == (a > b) and ge == (a >= b)
            and lt != ge and le != gt)


def order_str(a: str, b: str) -> bool:
    """
    pre: len(a) <= 3 and len(b) <= 3
    post: _
    """
    if tick():
        return True
    lt, le = _passes(R.assert_less, a, b), _passes(R.assert_less_equal, a, b)
    gt, ge = _passes(R.assert_greater, a, b), _passes(R.assert_greater_equal, a, b)
    return lt == (a < b) and le == (a <= b) and gt == (a > b) and ge == (a >= b) and lt != ge and le != gt


def eq_int(a: int, b: int) -> bool:
    """
    Two unbounded integers: equal iff ==, symmetric, assert_equal / assert_not_equal complementary.

    pre: True
    post: _
    """
    if tick():
        return True
    e1, e2 = equality_test(a, b, False, DELTA), equality_test(b, a, False, DELTA)
    pos = _passes(R.assert_equal, a, b, exact_strings=False, delta=DELTA)
    neg = _passes(R.assert_not_equal, a, b, exact_strings=False, delta=DELTA)
    return e1 == e2 == (a == b) and pos == e1 and neg == (not e1)


def eq_grid(i0: bool, i1: bool, i2: bool, x0: bool, x1: bool, x2: bool, x3: bool, y0: bool, y1: bool, y2: bool,
            y3: bool, left_int: bool, nest: bool, exact: bool) -> bool:
    """
    Tolerance on IEEE doubles: operands from the grid (floats next to the default delta at small and LARGE magnitude)
    or a small int, both orders, raw or nested (list / dict value / dict in a list / tuple in a dict), exact_strings on or off: |a-b| < delta => equal, |a-b| > delta => not equal,
    symmetric, assert_equal / assert_not_equal / assert_almost_equal agree.

    pre: True
    post: _
    """
    if tick():
        return True
    if PART:
        left_int, nest = bool(int(PART.split(",")[0])), int(PART.split(",")[1])
    i = bits(i0, i1, i2) - 3
    fa, fb = _grid(x0, x1, x2, x3), _grid(y0, y1, y2, y3)
    if fa is None or fb is None:
        return True
    if left_int and (x0 or x1 or x2 or x3):
        return True               # the left grid index is unused when the left operand is the int
    a = i if left_int else fa
    b = fb
    if excluded("C07.eq_grid", a=a, b=b, nest=nest):
        return True
    exact_concrete = True if exact else False          # decide the last symbolic bit while still tracing
    from crosshair.tracers import NoTracing
    with NoTracing():              # every value is concrete here (chosen by the bits): run the comparison natively
        return _eq_cell(a, b, int(nest), exact_concrete)


def _eq_cell(a, b, nest, exact):
    d = abs(a - b)
    if d == DELTA:
        return True
    want = d < DELTA
    # nest: 0 raw, 1 in a list, 2 as a dict value, 3 as a dict value inside a list, 4 in a tuple inside a dict
    xa, xb = [(a, b), ([a], [b]), ({"k": a}, {"k": b}), ([{"k": a, "j": 1}], [{"k": b, "j": 1}]),
              ({"k": (a, "s")}, {"k": (b, "s")})][nest]
    # exact_strings only concerns strings: the float tolerance applies either way
    e1, e2 = equality_test(xa, xb, exact, DELTA), equality_test(xb, xa, exact, DELTA)
    pos = _passes(R.assert_equal, xa, xb, exact_strings=exact, delta=DELTA)
    pos2 = _passes(R.assert_equal, xb, xa, exact_strings=exact, delta=DELTA)
    neg = _passes(R.assert_not_equal, xa, xb, exact_strings=exact, delta=DELTA)
    return e1 == want and e2 == want and pos == want and pos2 == want and neg == (not want)


SPECIAL = [float("inf"), float("-inf"), 1.0, 1.0004, 0, 1e308, -1e308, 3]


def eq_special(a0: bool, a1: bool, a2: bool, b0: bool, b1: bool, b2: bool, n0: bool, n1: bool, none_delta: bool) -> bool:
    """
    The ends of the float range and the documented `delta=None` (= the default delta): operands from
    {inf, -inf, 1.0, 1.0004, 0, 1e308, -1e308, 3}, raw / in a list / as a dict value, delta given or None:
    equal exactly when a == b or |a - b| < 0.001; symmetric; assert_equal / assert_not_equal complementary.

    pre: True
    post: _
    """
    if tick():
        return True
    a, b, nest = SPECIAL[bits(a0, a1, a2)], SPECIAL[bits(b0, b1, b2)], bits(n0, n1)
    if nest == 3:
        return True
    none_delta = True if none_delta else False
    from crosshair.tracers import NoTracing
    with NoTracing():
        if isinstance(a, int) and isinstance(b, int):
            want = a == b
        else:
            want = a == b or abs(a - b) < DELTA
        xa, xb = [(a, b), ([a], [b]), ({"k": a}, {"k": b})][nest]
        kw = {"exact_strings": False, "delta": None if none_delta else DELTA}
        pos, pos2 = _passes(R.assert_equal, xa, xb, **kw), _passes(R.assert_equal, xb, xa, **kw)
        neg = _passes(R.assert_not_equal, xa, xb, **kw)
        return pos == want and pos2 == want and neg == (not want)


SET_ELEMS = [1.0, 1.0004, 1.0008, 5.0]


def eq_sets(a0: bool, a1: bool, a2: bool, a3: bool, b0: bool, b1: bool, b2: bool, b3: bool, frozen: bool) -> bool:
    """
    Sets (and frozensets) of floats next to the tolerance: every subset of {1.0, 1.0004, 1.0008, 5.0} against every other.
    The verdict does not depend on the argument order, equal sets are equal, a set with an element that has no partner
    within delta on the other side is not equal, assert_equal / assert_not_equal are complementary.

    pre: True
    post: _
    """
    if tick():
        return True
    xs = [e for e, on in zip(SET_ELEMS, (a0, a1, a2, a3)) if on]
    ys = [e for e, on in zip(SET_ELEMS, (b0, b1, b2, b3)) if on]
    frozen = True if frozen else False
    from crosshair.tracers import NoTracing
    with NoTracing():
        x, y = (frozenset(xs), frozenset(ys)) if frozen else (set(xs), set(ys))
        e1, e2 = equality_test(x, y, False, DELTA), equality_test(y, x, False, DELTA)
        pos, neg = _passes(R.assert_equal, x, y, exact_strings=False, delta=DELTA), _passes(R.assert_not_equal, x, y, exact_strings=False, delta=DELTA)
        if e1 != e2 or pos != e1 or neg == pos:
            return False
        if x == y and not e1:
            return False
        lonely = (any(all(abs(p - q) >= DELTA for q in y) for p in x) or any(all(abs(p - q) >= DELTA for q in x) for p in y))
        if lonely and e1:
            return False
        return True


Scalar = Union[int, bool, str, None]


def eq_scalar(a: Scalar, b: Scalar, exact: bool) -> bool:
    """
    Mixed scalar kinds: symmetry; assert_equal and assert_not_equal never both pass or both fail; values of different
    kinds (str vs number, None vs anything else) are never equal; a value equals itself.

    pre: (not isinstance(a, str) or len(a) <= 2) and (not isinstance(b, str) or len(b) <= 2)
    pre: exact or not (isinstance(a, str) and isinstance(b, str))
    post: _
    """
    if tick():
        return True
    if excluded("C07.eq_scalar", a=a, b=b, exact=exact):
        return True
    e1, e2 = equality_test(a, b, exact, DELTA), equality_test(b, a, exact, DELTA)
    pos = _passes(R.assert_equal, a, b, exact_strings=exact, delta=DELTA)
    neg = _passes(R.assert_not_equal, a, b, exact_strings=exact, delta=DELTA)
    if e1 != e2 or pos == neg or pos != e1:
        return False
    sa, sb = isinstance(a, str), isinstance(b, str)
    if (exact or not sa) and not equality_test(a, a, exact, DELTA):
        return False
    if sa != sb and e1:
        return False
    if (a is None) != (b is None) and e1:
        return False
    if sa and sb and exact:
        return e1 == (a == b)
    return True


def eq_seq(a: List[int], b: List[int], as_tuple: bool) -> bool:
    """
    Container recursion: two lists (or two tuples) are equal iff same length and element-wise equal under the same
    tolerance rule; a list never equals a tuple with the same elements unless both empty is excluded too.

    pre: len(a) <= 2 and len(b) <= 2
    post: _
    """
    if tick():
        return True
    x, y = (tuple(a), tuple(b)) if as_tuple else (list(a), list(b))
    e = equality_test(x, y, False, DELTA)
    want = len(a) == len(b) and all(equality_test(p, q, False, DELTA) for p, q in zip(a, b))
    mixed = equality_test(list(a), tuple(a), False, DELTA)
    return e == want and e == equality_test(y, x, False, DELTA) and not mixed


def eq_dict(ka0: bool, ka1: bool, va: int, kb0: bool, kb1: bool, vb: int) -> bool:
    """
    One-entry dicts with keys from {"a","b","c"} and unbounded int values.

    pre: True
    post: _
    """
    if tick():
        return True
    KEYS = ["a", "b", "c", "a"]
    ka, kb = KEYS[bits(ka0, ka1)], KEYS[bits(kb0, kb1)]
    e = equality_test({ka: va}, {kb: vb}, True, DELTA)
    return e == (ka == kb and va == vb) and e == equality_test({kb: vb}, {ka: va}, True, DELTA)


STRINGS = ["Hello", "hello", "hello!", "HELLO  ", "a b", "a  b.", "b a", "", "a\nb", "b\na", "hello world", "x"]
# documented normalisation: case, punctuation and amount of whitespace are ignored; line order is ignored
CANON = ["hello", "hello", "hello", "hello", "a b", "a b", "b a", "", "a|b", "a|b", "hello world", "x"]


def eq_str_norm(x0: bool, x1: bool, x2: bool, x3: bool, y0: bool, y1: bool, y2: bool, y3: bool) -> bool:
    """
    String normalisation (exact_strings=False) on a 12-string menu: symmetric, reflexive, equal exactly when the
    documented canonical forms coincide; exact_strings=True compares character by character.

    pre: True
    post: _
    """
    if tick():
        return True
    i, j = bits(x0, x1, x2, x3), bits(y0, y1, y2, y3)
    if i >= len(STRINGS) or j >= len(STRINGS):
        return True
    a, b = STRINGS[i], STRINGS[j]
    e1, e2 = equality_test(a, b, False, DELTA), equality_test(b, a, False, DELTA)
    ex = equality_test(a, b, True, DELTA)
    pos = _passes(R.assert_equal, a, b, exact_strings=False, delta=DELTA)
    neg = _passes(R.assert_not_equal, a, b, exact_strings=False, delta=DELTA)
    return (e1 == e2 == (CANON[i] == CANON[j]) and ex == (a == b) and pos == e1 and neg == (not e1)
            and equality_test(a, a, False, DELTA))


def member_list(needle: int, hay: List[int]) -> bool:
    """
    assert_in / assert_not_in / contains_subset on int lists.

    pre: len(hay) <= 3
    post: _
    """
    if tick():
        return True
    p, n = _passes(R.assert_in, needle, hay), _passes(R.assert_not_in, needle, hay)
    sub = _passes(R.assert_contains_subset, [needle], hay)
    nsub = _passes(R.assert_not_contains_subset, [needle], hay)
    want = needle in hay
    return p == want and n == (not want) and sub == want and nsub == (not want)


def member_str(needle: str, hay: str) -> bool:
    """
    pre: len(needle) <= 2 and len(hay) <= 3
    post: _
    """
    if tick():
        return True
    p, n = _passes(R.assert_in, needle, hay), _passes(R.assert_not_in, needle, hay)
    want = needle in hay
    return p == want and n == (not want)


Any1 = Union[int, str, None, List[int], bool]


def truth_none(v: Any1) -> bool:
    """
    assert_true / assert_false / assert_is_none / assert_is_not_none.

    pre: (not isinstance(v, str) or len(v) <= 2) and (not isinstance(v, list) or len(v) <= 2)
    post: _
    """
    if tick():
        return True
    t, f = _passes(R.assert_true, v, ExactValue("True")), _passes(R.assert_false, v, ExactValue("False"))
    n, nn = _passes(R.assert_is_none, v, ExactValue("None")), _passes(R.assert_is_not_none, v, ExactValue("None"))
    return t == bool(v) and f == (not bool(v)) and n == (v is None) and nn == (v is not None)


def length(seq: List[int], n: int) -> bool:
    """
    The six assert_length_* classes against len(seq) <op> n.

    pre: len(seq) <= 3
    post: _
    """
    if tick():
        return True
    k = len(seq)
    return (_passes(R.assert_length_equal, seq, n) == (k == n)
            and _passes(R.assert_length_not_equal, seq, n) == (k != n)
            and _passes(R.assert_length_less, seq, n) == (k < n)
            and _passes(R.assert_length_less_equal, seq, n) == (k <= n)
            and _passes(R.assert_length_greater, seq, n) == (k > n)
            and _passes(R.assert_length_greater_equal, seq, n) == (k >= n))


def identity(xs: List[int], same: bool) -> bool:
    """
    assert_is / assert_is_not on a list and either itself or an equal copy.

    pre: len(xs) <= 2
    post: _
    """
    if tick():
        return True
    other = xs if same else list(xs)
    return _passes(R.assert_is, xs, other) == same and _passes(R.assert_is_not, xs, other) == (not same)


CLASSES = [int, float, str, bool, list]


def instance(v: Union[int, float, str, bool, List[int]], c0: bool, c1: bool, c2: bool) -> bool:
    """
    assert_is_instance / assert_not_is_instance against isinstance (int and float are documented to accept each other).

    pre: (not isinstance(v, str) or len(v) <= 1) and (not isinstance(v, list) or len(v) <= 1)
    post: _
    """
    if tick():
        return True
    k = bits(c0, c1, c2)
    if k >= len(CLASSES):
        return True
    cls = CLASSES[k]
    want = isinstance(v, (int, float)) if cls in (int, float) else isinstance(v, cls)
    return (_passes(R.assert_is_instance, v, cls) == want and _passes(R.assert_not_is_instance, v, cls) == (not want))


def order_reach(a: float, b: float) -> bool:
    """
    Reachability twin: REFUTED (assert_less fails for some pair of doubles).

    pre: a == a and b == b
    post: _
    """
    if tick():
        return True
    return _passes(R.assert_less, a, b)
