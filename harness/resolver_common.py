"""Shared builder + reference semantics for the resolver properties C01 / C02 / C03.

The reference functions below transcribe the PROPERTY TEXT and pedal's documentation (rank list from
docsrc/developers/ffs.rst), not pedal's code.
"""
from fractions import Fraction

from pedal.core.feedback import Feedback
from pedal.core.report import Report

# documented rank list (docsrc/developers/ffs.rst "The default priority list is")
RANK = ["highest", "syntax", "mistakes", "instructor", "algorithmic", "runtime", "student",
        "specification", "positive", "instructions", "uncategorized", "lowest"]
ALIAS = {"parser": "syntax", "verifier": "syntax", "instructor": "instructor", "analyzer": "algorithmic"}

COMPLIMENT = "Compliment"       # Feedback.KINDS.COMPLIMENT (documented constant values)
INSTRUCTIONAL = "Instructional"
KINDS = [None, COMPLIMENT, INSTRUCTIONAL]

DEFAULT_LABEL = "set_correct_no_errors"


def spec_key(cat, prio):
    """Reference sort key (x10, integer) of a feedback with this category / priority."""
    c = cat.lower() if cat is not None else "uncategorized"
    v = RANK.index(c) if c in RANK else len(RANK)
    p = "medium"
    if prio is not None:
        p = prio.lower()
        p = ALIAS.get(p, p)
    if p in RANK:
        v = RANK.index(p)
        p = "medium"
    return v * 10 + {"low": 7, "medium": 5, "high": 3}.get(p, 1)


def norm_cat(c):
    c = c.lower()
    return ALIAS.get(c, c)


class Sup:
    """One suppress() call: category (or None), label (or True = whole category), fields dict."""

    def __init__(self, category, label, fields):
        self.category, self.label, self.fields = category, label, fields

    def apply(self, report):
        report.suppress(self.category, self.label, self.fields)

    def hits(self, fcat, flabel, ffields):
        """Reference: 1 = suppresses this feedback, 0 = does not, -1 = unspecified (labels differ by case
        only, which the property text does not settle)."""
        if self.category is not None:
            if fcat is None or norm_cat(self.category) != fcat.lower():
                return 0
            if self.label is True:
                return 1
        if self.label is not True:
            if self.label != flabel:
                return -1 if self.label.lower() == flabel.lower() else 0
        for k, v in (self.fields or {}).items():
            if ffields.get(k, None) != v:
                return 0
        return 1


def suppression_status(sups, fcat, flabel, ffields):
    res = 0
    for s in sups:
        h = s.hits(fcat, flabel, ffields)
        if h == 1:
            return 1
        if h == -1:
            res = -1
    return res


# score literals: (literal handed to pedal, exact value as Fraction, sign +1 / -1)
SCORES = [
    (None, None, 0),
    (0.25, Fraction(1, 4), 1),
    (1, Fraction(1), 1),
    ("+25%", Fraction(1, 4), 1),
    ("25%", Fraction(1, 4), 1),
    ("-0.1", Fraction(1, 10), -1),
    ("-10%", Fraction(1, 10), -1),
    ("+.5", Fraction(1, 2), 1),
]


def ref_score_contribution(score_idx, valence, triggered, unscored, suppressed):
    """Reference contribution of one feedback to the final score (property C03 text)."""
    lit, val, sign = SCORES[score_idx]
    if lit is None or unscored or suppressed:
        return Fraction(0)
    negative = (valence == -1)
    awards = (triggered and not negative) or ((not triggered) and negative)
    return sign * val if awards else Fraction(0)
