"""C15 - captured output and mocked input are exact.  CrossHair harnesses over the real pedal code.

Stubs in force (harness process only): `exec` inside pedal.sandbox.sandbox is replaced by a function that
writes a symbolic string to sys.stdout (what a student program can do to the stream) and returns.
"""
import sys
from typing import List

from engine.prelude import tick, flag, excluded, bits, PART, untrace_patches
import pedal.sandbox.sandbox as SB
from pedal.core.report import Report
from pedal.core.submission import Submission
from pedal.sandbox.sandbox import Sandbox


# ---------------------------------------------------------------------------------------------
# reference: line view of one execution's text, written against the property statement with an own
# character loop (no rstrip/split from the code under test's vocabulary)
def ref_lines(raw: str) -> List[str]:
    if not raw:
        return []
    body = raw
    while body and body[-1].isspace():
        body = body[:-1]
    out, cur = [], ""
    for ch in body:
        if ch == "\n":
            out.append(cur)
            cur = ""
        else:
            cur += ch
    out.append(cur)
    res = []
    for ln in out:
        while ln and ln[-1].isspace():
            ln = ln[:-1]
        res.append(ln)
    return res


class _Ctx:
    output = ""


def _bare_sandbox(prev_raw, prev_lines):
    sb = Sandbox.__new__(Sandbox)
    sb.raw_output = prev_raw
    sb.output = list(prev_lines)
    return sb


def append_step(prev_raw: str, n_prev_lines: int, new: str) -> bool:
    """
    One output-recording step from an arbitrary accumulated state.

    pre: len(prev_raw) <= 2 and 0 <= n_prev_lines <= 2 and len(new) <= 3
    post: _
    """
    if tick():
        return True
    if excluded("C15.append_step", prev_raw=prev_raw, n_prev_lines=n_prev_lines, new=new):
        return True
    prev_lines = ["L%d" % i for i in range(n_prev_lines)]
    sb = _bare_sandbox(prev_raw, prev_lines)
    ctx = _Ctx()
    sb.append_output(new, ctx)
    return (sb.raw_output == prev_raw + new and ctx.output == new
            and sb.output == prev_lines + ref_lines(new))


def append_step_reach(prev_raw: str, n_prev_lines: int, new: str) -> bool:
    """
    Reachability twin: must be REFUTED (a multi-line text with trailing blanks is recorded).

    pre: len(prev_raw) <= 2 and 0 <= n_prev_lines <= 2 and len(new) <= 3
    post: _
    """
    if tick():
        return True
    sb = _bare_sandbox(prev_raw, [])
    ctx = _Ctx()
    sb.append_output(new, ctx)
    return not (len(sb.output) == 2 and new.endswith(" "))


# ---------------------------------------------------------------------------------------------
# histories through the real entry points, exec stubbed
_state = {"text": "", "reads": 0, "got": [], "calls": 0, "err": "", "keep_input": False, "saved_input": None}


def _fake_exec(code, data):
    """Stands for an arbitrary student program: reads input() `reads` times, then writes `text`."""
    _state["calls"] += 1
    reader = data["input"]
    if _state["keep_input"]:
        # `ask = input` at module level: a later execution reads through the reference an earlier one stored
        if _state["saved_input"] is None:
            _state["saved_input"] = reader
        reader = _state["saved_input"]
    for _ in range(_state["reads"]):
        _state["got"].append(reader("p"))
    if _state["err"]:
        sys.stderr.write(_state["err"])       # diagnostics on standard ERROR are not standard output
    sys.stdout.write(_state["text"])
    if "_" not in data:
        data["_"] = 0


SB.exec = _fake_exec
untrace_patches()


def _fresh():
    r = Report()
    r.contextualize(Submission({"answer.py": "pass"}, "answer.py"))
    sb = Sandbox(report=r)
    sb.data["f"] = lambda: None  # something callable for call()
    sb.result_proxy_class = None  # results are not the subject here; the proxy class is not traceable
    return sb


def _do(sb, op, text):
    """op: 0 run, 1 call, 2 evaluate, 3 clear_output"""
    _state["text"] = text
    if op == 0:
        sb.run()
    elif op == 1:
        sb.call("f")
    elif op == 2:
        sb.evaluate("1")
    else:
        sb.clear_output()


def _ops_from_part(n):
    """VERIF_PART = "i,j[,k]" fixes the operation menu indices concretely (one partition per op tuple)."""
    if PART:
        return [int(x) for x in PART.split(",")][:n]
    return None


def _history(ops, texts):
    sb = _fresh()
    so = sys.stdout
    raw, lines, ok = "", [], True
    for op, text in zip(ops, texts):
        before = len(sb._context)
        calls_before = _state["calls"]
        _do(sb, op, text)
        if op != 3 and _state["calls"] == calls_before:
            flag("stub_dead")          # pedal no longer reaches the stubbed exec: nothing can be judged
            return True
        if op == 3:
            raw, lines = "", []
            continue
        raw += text
        lines += ref_lines(text)
        ok = ok and len(sb._context) == before + 1 and sb._context[-1].output == text
    return ok and sys.stdout is so and sb.raw_output == raw and sb.output == lines


def history2(t0: str, t1: str) -> bool:
    """
    Two operations (run / call / evaluate / clear_output; the pair is the partition) printing symbolic text.

    pre: len(t0) <= 1 and len(t1) <= 1
    post: _
    """
    if tick():
        return True
    ops = _ops_from_part(2) or [0, 1]
    if excluded("C15.history2", ops=ops, t0=t0, t1=t1):
        return True
    return _history(ops, [t0, t1])


def history3(t0: str, t1: str, t2: str) -> bool:
    """
    pre: len(t0) <= 1 and len(t1) <= 1 and len(t2) <= 1
    post: _
    """
    if tick():
        return True
    ops = _ops_from_part(3) or [0, 1, 0]
    if excluded("C15.history3", ops=ops, t0=t0, t1=t1, t2=t2):
        return True
    return _history(ops, [t0, t1, t2])


def stderr_history(t0: str, t1: str, e0: bool, e1: bool) -> bool:
    """
    Two operations (partition) whose programs also write to standard ERROR (warnings, tracebacks they print themselves):
    the captured raw output, the per-execution records and the line view hold exactly what went to standard OUTPUT.

    pre: len(t0) <= 1 and len(t1) <= 1
    post: _
    """
    if tick():
        return True
    ops = _ops_from_part(2) or [0, 1]
    import io
    real_err = sys.stderr
    sys.stderr = io.StringIO()
    try:
        sb = _fresh()
        raw, lines, ok = "", [], True
        for op, text, err in zip(ops, [t0, t1], [e0, e1]):
            _state["err"] = "warning: E\n" if err else ""
            before = len(sb._context)
            _do(sb, op, text)
            if op == 3:
                raw, lines = "", []
                continue
            raw += text
            lines += ref_lines(text)
            ok = ok and len(sb._context) == before + 1 and sb._context[-1].output == text
        return ok and sb.raw_output == raw and sb.output == lines
    finally:
        _state["err"] = ""
        sys.stderr = real_err


def input_reference(queue: List[str], r0: int, r1: int) -> bool:
    """
    A program keeps a reference to the input function it was given (`ask = input`) and a LATER execution (partition =
    the two entry points) reads through it: values still come FIFO from the queue, and each execution's own record
    (context.inputs) holds exactly the values read during THAT execution.

    pre: len(queue) <= 3 and 0 <= r0 <= 2 and 0 <= r1 <= 2 and all(len(q) <= 1 for q in queue)
    post: _
    """
    if tick():
        return True
    ops = _ops_from_part(2) or [0, 1]
    sb = _fresh()
    sb.set_input(list(queue))
    _state["keep_input"], _state["saved_input"], _state["got"] = True, None, []
    try:
        _state["reads"] = r0
        _do(sb, ops[0], "")
        first = list(sb._context[-1].inputs)
        _state["reads"] = r1
        _do(sb, ops[1], "")
        second = list(sb._context[-1].inputs)
        got = list(_state["got"])
    finally:
        _state["keep_input"], _state["saved_input"], _state["reads"], _state["got"] = False, None, 0, []
    want = [(queue[i] if i < len(queue) else "0") for i in range(r0 + r1)]
    return got == want and first == want[:r0] and second == want[r0:]


def history_reach(t0: str, t1: str) -> bool:
    """
    Reachability twin: REFUTED when a printing execution is followed by a silent one.

    pre: len(t0) <= 1 and len(t1) <= 1
    post: _
    """
    if tick():
        return True
    ops = _ops_from_part(2) or [0, 1]
    sb = _fresh()
    _do(sb, ops[0], t0)
    _do(sb, ops[1], t1)
    return not (t0 != "" and t1 == "" and len(sb._context) == 2 and sb.raw_output == t0)


# ---------------------------------------------------------------------------------------------
# input queue: FIFO, consume-once, default when empty, prompt echoed, per-context record
QMAX = 3 if __import__("os").environ.get("VERIF_TIER") == "thorough" else 2


class _FakeCtx:
    def __init__(self):
        self.inputs = []


def input_fifo(queue: List[str], as_scalar: bool, keep: bool, extra: List[str], reads: int) -> bool:
    """
    set_input(list | str) [+ set_input(extra, clear=False)] then `reads` calls of the mocked input().

    pre: len(queue) <= QMAX and len(extra) <= 1 and 0 <= reads <= QMAX + 2
    pre: all(len(q) <= 1 for q in queue) and all(len(q) <= 1 for q in extra)
    post: _
    """
    if tick():
        return True
    sb = Sandbox.__new__(Sandbox)
    sb.inputs = ["stale"]
    sb._context = [_FakeCtx()]
    if as_scalar and queue:
        sb.set_input(queue[0])
        expect = [queue[0]]
    else:
        sb.set_input(list(queue))
        expect = list(queue)
    if keep:
        sb.set_input(list(extra), clear=False)
        expect = expect + list(extra)
    tracker = sb._track_inputs(sb._context[-1].inputs)
    import io
    buf = io.StringIO()
    so = sys.stdout
    sys.stdout = buf
    got = []
    try:
        for i in range(reads):
            got.append(tracker("p"))
    finally:
        sys.stdout = so
    want = [(expect[i] if i < len(expect) else "0") for i in range(reads)]
    left = expect[reads:]
    return (got == want and sb.inputs == left and sb._context[-1].inputs == want
            and buf.getvalue() == "p\n" * reads)


def input_handback(queue: List[str], consumed: int, reads: int, via_function: bool) -> bool:
    """
    The queue handed back to set_input: after `consumed` reads, `set_input(<the sandbox's own queue>)` (what
    set_input(get_input()) does) keeps exactly the remaining values; and after an input FUNCTION was installed
    (set_input(callable), as run(real_io=True) does) a list can be queued again. Then `reads` reads: FIFO, then '0'.

    pre: len(queue) <= 3 and 0 <= consumed <= 3 and 0 <= reads <= 4 and all(len(q) <= 1 for q in queue)
    post: _
    """
    if tick():
        return True
    sb = Sandbox.__new__(Sandbox)
    sb.inputs = []
    sb._context = [_FakeCtx()]
    import io
    so = sys.stdout
    sys.stdout = io.StringIO()
    try:
        if via_function:
            sb.set_input(lambda prompt: "fn")
            tracker = sb._track_inputs(sb._context[-1].inputs)
            if tracker("p") != "fn":
                return False
            sb.set_input(list(queue))
            remaining = list(queue)
        else:
            sb.set_input(list(queue))
            tracker = sb._track_inputs(sb._context[-1].inputs)
            for i in range(consumed):
                tracker("p")
            remaining = list(queue[consumed:])
            sb.set_input(sb.inputs)              # hand the live queue back
        tracker = sb._track_inputs(sb._context[-1].inputs)
        got = [tracker("p") for i in range(reads)]
    finally:
        sys.stdout = so
    want = [(remaining[i] if i < len(remaining) else "0") for i in range(reads)]
    return got == want and list(sb.inputs) == remaining[reads:]


def input_clear(queue: List[str], reads: int) -> bool:
    """
    clear_input() empties the queue: every later read returns the default.

    pre: len(queue) <= 3 and 0 <= reads <= 3 and all(len(q) <= 1 for q in queue)
    post: _
    """
    if tick():
        return True
    sb = Sandbox.__new__(Sandbox)
    sb.inputs = []
    sb._context = [_FakeCtx()]
    sb.set_input(list(queue))
    sb.clear_input()
    tracker = sb._track_inputs(sb._context[-1].inputs)
    import io
    so = sys.stdout
    sys.stdout = io.StringIO()
    try:
        got = [tracker() for _ in range(reads)]
    finally:
        sys.stdout = so
    return got == ["0"] * reads and sb.inputs == []


def input_entry(queue: List[str], arg: List[str], reads: int) -> bool:
    """
    Leftover queue, then run(inputs=...) / call(f, inputs=...) whose (stubbed) program reads `reads` times.
    Partition "e,k": e = 0 run / 1 call; k = 0 inputs omitted, 1 inputs=list, 2 inputs=str.

    pre: len(queue) <= 2 and len(arg) <= 2 and 0 <= reads <= 3
    pre: all(len(q) <= 1 for q in queue) and all(len(q) <= 1 for q in arg)
    post: _
    """
    if tick():
        return True
    entry, kind = [int(x) for x in (PART or "1,1").split(",")]
    sb = _fresh()
    sb.set_input(list(queue))
    if kind == 0:
        kw, expect = {}, list(queue)
    elif kind == 1:
        kw, expect = {"inputs": list(arg)}, list(arg)
    else:
        scalar = arg[0] if arg else ""
        kw, expect = {"inputs": scalar}, [scalar]
    _state["text"], _state["reads"], _state["got"] = "", reads, []
    try:
        if entry == 0:
            sb.run(**kw)
        else:
            sb.call("f", **kw)
    finally:
        _state["reads"] = 0
    want = [(expect[i] if i < len(expect) else "0") for i in range(reads)]
    return (sb.exception is None and _state["got"] == want and sb.inputs == expect[reads:]
            and sb._context[-1].inputs == want and sb.raw_output == "p\n" * reads)


def stub_canary():
    """True iff pedal still routes student code through the stubbed `exec` name."""
    sb = _fresh()
    before = _state["calls"]
    _do(sb, 0, "x")
    return _state["calls"] == before + 1 and sb.raw_output == "x"


# CrossHair replaces io.StringIO by its own model; the capture stream's REAL behaviour (newline translation, ...) is
# only seen with the real class: these obligations give pedal the real StringIO (constructed untraced) and print
# concrete texts from a menu.
import io as _real_io
import types as _types

_REAL_STRINGIO = _real_io.StringIO
_SB_IO = SB.io
CR_TEXTS = ["step 0\rstep 1\rdone\n", "a\r\nb\r\n", "x\n", "", "no newline", "tab\t \n\n", "\r", "a\n\rb"]


def _real_stringio(*a, **k):
    from crosshair.tracers import NoTracing
    with NoTracing():
        return _REAL_STRINGIO(*a, **k)


def real_stream(a0: bool, a1: bool, a2: bool, b0: bool, b1: bool, b2: bool, e0: bool, e1: bool) -> bool:
    """
    Two executions (run / call / evaluate) printing texts from an 8-entry menu with carriage returns, CRLF, tabs and
    missing newlines through the REAL StringIO: raw output is exactly what was written, each context holds its share,
    the line view is the concatenation of the per-execution views.

    pre: True
    post: _
    """
    if tick():
        return True
    t0, t1 = CR_TEXTS[bits(a0, a1, a2)], CR_TEXTS[bits(b0, b1, b2)]
    op0, op1 = bits(e0, False) + 0, bits(e1, False) + 1
    SB.io = _types.SimpleNamespace(StringIO=_real_stringio)
    try:
        sb = _fresh()
        _do(sb, op0, t0)
        first = sb._context[-1].output
        _do(sb, op1 % 3, t1)
        return (first == t0 and sb._context[-1].output == t1 and sb.raw_output == t0 + t1
                and sb.output == ref_lines(t0) + ref_lines(t1))
    finally:
        SB.io = _SB_IO
