"""C20 - each feedback call is recorded once, truthfully, rendered from its fields; overrides are restored.
Public API: Feedback subclasses (instructor-defined), core commands, Report, Formatter, override/clear."""
from engine.prelude import tick, flag, excluded, bits, PART
from pedal.core.feedback import Feedback, FeedbackGroup
from pedal.core.report import Report
from pedal.core.formatting import Formatter
from pedal.core.commands import (set_correct, compliment, give_partial, explain, gently, clear_report,
                                 contextualize_report)


class Boom(Exception):
    pass


class Probe(Feedback):
    """Instructor-defined feedback whose condition outcome is dictated by the harness."""
    category = "instructor"
    outcome = 0      # 0 False, 1 True, 2 raises
    message_template = "T:{f}"

    def condition(self, *a, **k):
        if self.outcome == 2:
            raise Boom("condition failed")
        return self.outcome == 1


class ProbeNoTemplate(Probe):
    message_template = None


class Group(FeedbackGroup):
    def __init__(self, **kw):
        self.seen = []
        super().__init__(**kw)

    def _get_child_feedback(self, feedback, active):
        self.seen.append((feedback, active))


def _count(lst, obj):
    return sum(1 for x in lst if x is obj)


def record(o0: bool, o1: bool, has_message: bool, bad_template: bool, no_template: bool, has_else: bool,
           delay: bool, grouped: bool, extra_kw: bool, msg: str) -> bool:
    """
    An instructor-defined Feedback subclass with condition outcome (False / True / raises), with/without explicit
    message, class template / missing template / template naming an absent field, else_message, delay_condition,
    parent group, fields vs extra keywords.

    pre: True
    post: _
    """
    if tick():
        return True
    outcome = bits(o0, o1)
    if outcome == 3:
        return True
    if excluded("C20.record", outcome=outcome, has_message=has_message, bad_template=bad_template,
                no_template=no_template, has_else=has_else, delay=delay, grouped=grouped, extra_kw=extra_kw):
        return True
    r = Report()
    cls = ProbeNoTemplate if no_template else Probe
    kw = {"report": r}
    if has_message:
        kw["message"] = msg
    if bad_template:
        kw["message_template"] = "{absent_field}"
    if has_else:
        kw["else_message"] = "else"
    if delay:
        kw["delay_condition"] = True
    group = None
    if grouped:
        group = Group(report=r, label="g", activate=True)
        kw["parent"] = group
    if extra_kw:
        kw["f"] = "v"
    else:
        kw["fields"] = {"f": "v"}
    fb = cls.__new__(cls)
    fb.outcome = outcome
    raised = None
    try:
        fb.__init__(**kw)
    except Exception as e:
        raised = e
    if delay:
        # nothing recorded yet, no exception yet
        if raised is not None or _count(r.feedback, fb) or _count(r.ignored_feedback, fb) or fb._status != "delayed":
            return False
        try:
            fb._handle_condition()
        except Exception as e:
            raised = e
    message_raises = (outcome == 1 and bad_template and not has_message)
    ok_outcome = (outcome == 1) and not message_raises
    in_active, in_ignored = _count(r.feedback, fb), _count(r.ignored_feedback, fb)
    if in_active + in_ignored != 1:
        return False
    if (in_active == 1) != ok_outcome or bool(fb) != ok_outcome:
        return False
    if outcome == 2:
        if not isinstance(raised, Boom) or fb._status != "error":
            return False
    elif message_raises:
        flag("message_raises")
        if not isinstance(raised, KeyError) or fb._status != "error":
            return False
    else:
        if raised is not None or fb._status != ("active" if ok_outcome else "inactive"):
            return False
    if grouped:
        mine = [(f, a) for (f, a) in group.seen if f is fb]
        if len(mine) != 1 or mine[0][1] != ok_outcome:
            return False
    # message of a triggered feedback
    if ok_outcome:
        if has_message:
            return fb.message == msg
        if no_template and not bad_template:
            return fb.message == "No feedback message provided"
        return fb.message == "T:v"
    return True


def named_parent(o0: bool, o1: bool, p0: bool, p1: bool, delay: bool, has_message: bool) -> bool:
    """
    A feedback whose parent is given by NAME or NUMBER (how sections are referred to) instead of a group object, or whose
    parent group is itself untriggered: recorded exactly once on the side its condition decides, truth value = outcome,
    nothing raised unless the condition raised.

    pre: True
    post: _
    """
    if tick():
        return True
    outcome, pk = bits(o0, o1), bits(p0, p1)
    if outcome == 3:
        return True
    r = Report()
    parent = ["sec1", 2, Group(report=r, label="g", activate=False), None][pk]
    kw = {"report": r, "parent": parent, "fields": {"f": "v"}}
    if has_message:
        kw["message"] = "m"
    if delay:
        kw["delay_condition"] = True
    fb = Probe.__new__(Probe)
    fb.outcome = outcome
    raised = None
    try:
        fb.__init__(**kw)
        if delay:
            fb._handle_condition()
    except Exception as e:
        raised = e
    want = outcome == 1
    if _count(r.feedback, fb) != (1 if want else 0) or _count(r.ignored_feedback, fb) != (0 if want else 1):
        return False
    if bool(fb) != want:
        return False
    if outcome == 2:
        return isinstance(raised, Boom) and fb._status == "error"
    return raised is None and fb._status == ("active" if want else "inactive")


def logging_commands(k0: bool, k1: bool, two: bool) -> bool:
    """
    log() / debug() / system_error-free bookkeeping commands: every item handed to them is what the recorded feedback
    delivers as its message (debug: one feedback per item, the item itself; log: the items joined by the separator).

    pre: True
    post: _
    """
    if tick():
        return True
    from pedal.core.commands import log, debug
    items = [("hello",), ("a", "b"), (3,), ("",)][bits(k0, k1)]
    r = Report()
    if two:
        debug(*items, report=r)
        got = [f.message for f in r.feedback + r.ignored_feedback if f.label == "debug"]
        return got == list(items)
    log(*items, report=r)
    got = [f.message for f in r.feedback + r.ignored_feedback if f.label == "log"]
    return got == [" ".join(str(i) for i in items)]


COMMANDS = [lambda r, a: set_correct(report=r, activate=a), lambda r, a: compliment("c", report=r, activate=a),
            lambda r, a: give_partial(0.5, report=r, activate=a), lambda r, a: explain("e", report=r, activate=a),
            lambda r, a: gently("g", report=r, activate=a)]


def commands(c0: bool, c1: bool, c2: bool, act: bool, d0: bool, d1: bool, d2: bool, act2: bool) -> bool:
    """
    Two core commands: each recorded exactly once, in the triggered list iff activated.

    pre: True
    post: _
    """
    if tick():
        return True
    i, j = bits(c0, c1, c2), bits(d0, d1, d2)
    if i >= 5 or j >= 5:
        return True
    r = Report()
    a = COMMANDS[i](r, act)
    b = COMMANDS[j](r, act2)
    for fb, on in ((a, act), (b, act2)):
        if _count(r.feedback, fb) != (1 if on else 0) or _count(r.ignored_feedback, fb) != (0 if on else 1):
            return False
        if bool(fb) != on:
            return False
    return len(r.feedback) + len(r.ignored_feedback) == 2


# ---------------------------------------------------------------------------------------------
class Brackets(Formatter):
    def name(self, name):
        return "<" + str(name) + ">"

    def python_expression(self, code):
        return "`" + str(code) + "`"


VALUES = ("", "a", "{x}", "<b>")     # formatting realises symbolic text, so field values come from a small menu
class Extended(Formatter):
    """A formatter that ADDS a format name of its own (as pedal's HtmlFormatter-style subclasses do)."""
    available = Formatter.available + ["shout"]

    def shout(self, text):
        return str(text).upper() + "!"


TEMPLATES = ["{f}", "{f:name}", "{f:python_expression}", "a{f}b{g:name}c", "{g:python_expression}{f:name}", "{f:shout}|{g}"]


def _expect(t, f, g, custom):
    nm = (lambda x: "<" + x + ">") if custom else (lambda x: x)
    ex = (lambda x: "`" + x + "`") if custom else (lambda x: x)
    return [f, nm(f), ex(f), "a" + f + "b" + nm(g) + "c", ex(g) + nm(f), f.upper() + "!|" + g][t]


def render(f: str, g: str, custom: bool, explicit: bool, msg: str) -> bool:
    """
    Rendering: explicit message wins; else the template (fixed by the partition) with each field passed through the
    report's formatter method named by its format spec. Field values from a 4-value menu (solver-enumerated).

    pre: f in VALUES and g in VALUES
    post: _
    """
    if tick():
        return True
    t = int(PART) if PART else 3
    r = Report()
    if t == 5:
        r.set_formatter(Extended())          # the template uses the name this formatter adds
    elif custom:
        r.set_formatter(Brackets())
    kw = {"message": msg} if explicit else {}
    fb = Feedback(label="x", category="instructor", message_template=TEMPLATES[t], fields={"f": f, "g": g},
                  report=r, **kw)
    if explicit:
        return fb.message == msg
    return fb.message == _expect(t, f, g, custom)


# ---------------------------------------------------------------------------------------------
class Base(Feedback):
    category = "instructor"
    title = "base-title"
    message_template = "base-template"


class Child(Base):
    title = "child-title"        # message_template is INHERITED from Base


class Other(Feedback):
    category = "instructor"
    title = "other-title"
    message_template = "other-template"


class Falsy(Feedback):
    """Class attributes whose ORIGINAL values are falsy."""
    category = "instructor"
    title = ""
    message_template = "falsy-template"
    muted = False


CLASSES = [Base, Child, Other, Falsy]
ORIG = {(c, f): getattr(c, f) for c in CLASSES for f in ("title", "message_template")}


def _restored():
    return (all(getattr(c, f) == v for (c, f), v in ORIG.items())
            and all(not (c._override_backups or {}) for c in CLASSES))


def _reset_classes():
    for c in CLASSES:
        for f in ("title", "message_template"):
            if f in vars(c) and (c, f) != (Child, "message_template"):
                setattr(c, f, ORIG[(c, f)])
        if "message_template" in vars(Child):
            try:
                delattr(Child, "message_template")
            except AttributeError:
                pass
        if c._override_backups:
            c._override_backups.clear()


def overrides(a0: bool, a1: bool, a2: bool, b0: bool, b1: bool, b2: bool, c0: bool, c1: bool, c2: bool,
              v1: str, v2: str, v3: str, use_ctx: bool) -> bool:
    """
    Three operations from {Cls.override(title=v) / Cls.override(message_template=v) for Cls in Base, Child (inherits
    its template), Other, Falsy (original title is the empty string)}, then clear_report() or contextualize_report(): every class attribute (also inherited
    ones) is back to its original value, backups are empty; before the clear the latest override is visible and a new
    instance renders from it.

    pre: True
    post: _
    """
    if tick():
        return True
    ops = [bits(a0, a1, a2), bits(b0, b1, b2), bits(c0, c1, c2)]
    vals = [v1, v2, v3]
    r = Report()
    _reset_classes()
    ok = True
    current = dict(ORIG)
    try:
        for op, v in zip(ops, vals):
            if op >= 8:
                continue
            cls, field = CLASSES[op // 2], ("title", "message_template")[op % 2]
            cls.override(report=r, **{field: v})
            current[(cls, field)] = v
            if cls is Base and field == "message_template" and (Child, field) not in [(CLASSES[o // 2], ("title", "message_template")[o % 2]) for o in ops[:ops.index(op)] if o < 8]:
                current[(Child, field)] = v      # Child inherits Base's template unless overridden itself earlier
            if getattr(cls, field) != v:
                ok = False
        if use_ctx:
            contextualize_report("x = 1", report=r)
        else:
            clear_report(report=r)
        ok = ok and _restored() and Falsy.title == "" and Falsy.muted is False
        # a fresh instance renders from the restored class attributes
        fb = Child(report=r)
        ok = ok and fb.message == "base-template" and fb.title == "child-title"
    finally:
        _reset_classes()
    return ok


def overrides_reach(v1: str) -> bool:
    """
    Reachability twin: REFUTED (an override is visible until the report is cleared).

    pre: True
    post: _
    """
    if tick():
        return True
    r = Report()
    _reset_classes()
    try:
        Child.override(report=r, message_template=v1)
        fb = Child(report=r)
        return fb.message != v1 or v1 == "base-template"
    finally:
        r.clear()
        _reset_classes()


# ---------------------------------------------------------------------------------------------
class WithConst(Feedback):
    """A feedback class with class-level constant fields (as pedal's runtime/syntax/plotting feedbacks have)."""
    category = "instructor"
    constant_fields = {"unit": "cm"}
    message_template = "{unit}|{f}|{hint}|{location.line}"


def instances(f1: str, f2: str, h1: bool, h2: bool, l1: bool, l2: bool, same_report: bool) -> bool:
    """
    Two calls of the same feedback class (which declares constant_fields) with different field values, optional extra
    keyword and location: each message is rendered from ITS OWN call's fields, the first object's fields do not change
    when the second is created, and the class-level constants are untouched.

    pre: f1 in VALUES and f2 in VALUES
    post: _
    """
    if tick():
        return True
    r1 = Report()
    r2 = r1 if same_report else Report()
    kw1 = {"f": f1, "hint": "h1" if h1 else "", "location": 3 if l1 else 5}
    kw2 = {"f": f2, "hint": "h2" if h2 else "", "location": 7 if l2 else 9}
    if not h1:
        del kw1["hint"]
        kw1["fields"] = {"hint": "-"}
    a = WithConst(report=r1, **kw1)
    snapshot = dict(a.fields)
    msg_a = a.message
    if not h2:
        del kw2["hint"]
        kw2["fields"] = {"hint": "-"}
    b = WithConst(report=r2, **kw2)
    want_a = "cm|%s|%s|%d" % (f1, "h1" if h1 else "-", 3 if l1 else 5)
    want_b = "cm|%s|%s|%d" % (f2, "h2" if h2 else "-", 7 if l2 else 9)
    return (msg_a == want_a and b.message == want_b and a.message == want_a
            and {k: v for k, v in a.fields.items()} == snapshot
            and WithConst.constant_fields == {"unit": "cm"} and a.fields is not b.fields)
