"""C07 layers 2 + 3 - the public assert_* calls: wrapping combinations (raw value / proxied result of calling
student code), outcome plumbing (feedback recorded as failing exactly when the relation does not hold), error operands,
unevaluable relations, unit_test()."""
from engine.prelude import tick, flag, excluded, bits, PART, untraced, untrace_patches
from crosshair.tracers import NoTracing

import pedal.assertions.runtime as R
from pedal.assertions.commands import unit_test
from pedal.assertions.feedbacks import assert_group
from pedal.core.commands import contextualize_report, clear_report
from pedal.core.report import Report, MAIN_REPORT
from pedal.sandbox.commands import run as sandbox_run, get_sandbox
from pedal.sandbox.result import SandboxResult
from pedal.sandbox.sandbox import Sandbox

import pedal.sandbox.sandbox as _SBM
_SBM.exec = untraced(exec)       # student code in these obligations is concrete: run it untraced (real exec, faster)
untrace_patches()

# one real sandbox with one recorded call, built natively at import: proxies borrow its context
_R0 = Report()
contextualize_report("def f(x):\n    return x\ndef crash():\n    return 1/0\n", report=_R0)
_SB = Sandbox(report=_R0)
_SB.run()
_RES = _SB.call("f", 0)
_CTX_ID = _RES._actual_context_id
_SB.result_proxy_class = None
_ERR = _SB.call("crash")          # the (unproxied) exception object a crashed call returns, with its .feedback


def proxied(value):
    """What call()/evaluate() hand back for `value` (constructed untraced: the proxy class defeats tracing)."""
    with NoTracing():
        return SandboxResult(value, context_id=_CTX_ID, sandbox=_SB)


VALS = [-1, 0, 1]
NUMS = [-1, 0, 1, 1.0, 0.0, 2.5, True]      # equal values of different numeric kinds: 1 / 1.0 / True, 0 / 0.0
LISTS = [[], [0], [0, 1], [1]]

# (name, class, python relation on (a, b), right operand kind)
RELS = [
    ("equal", R.assert_equal, lambda a, b: a == b, "int"),
    ("not_equal", R.assert_not_equal, lambda a, b: a != b, "int"),
    ("less", R.assert_less, lambda a, b: a < b, "int"),
    ("less_equal", R.assert_less_equal, lambda a, b: a <= b, "int"),
    ("greater", R.assert_greater, lambda a, b: a > b, "int"),
    ("greater_equal", R.assert_greater_equal, lambda a, b: a >= b, "int"),
    ("in", R.assert_in, lambda a, b: a in b, "list"),
    ("not_in", R.assert_not_in, lambda a, b: a not in b, "list"),
    ("length_equal", R.assert_length_equal, lambda a, b: len(a) == b, "len"),
    ("length_less", R.assert_length_less, lambda a, b: len(a) < b, "len"),
    ("is", R.assert_is, lambda a, b: a is b, "same"),
    ("is_not", R.assert_is_not, lambda a, b: a is not b, "same"),
]


def _recorded_ok(r, fb, failed):
    n_active = sum(1 for f in r.feedback if f is fb)
    n_ignored = sum(1 for f in r.ignored_feedback if f is fb)
    return n_active == (1 if failed else 0) and n_ignored == (0 if failed else 1) and bool(fb) == failed


def public_rel(a0: bool, a1: bool, a2: bool, b0: bool, b1: bool, b2: bool, wl: bool, wr: bool) -> bool:
    """
    The full public call assert_x(left, right, report=r) (x = partition) on a small value grid (for the numeric relations:
    ints, floats and a bool incl. equal values of different kinds), each operand raw or
    proxied: the assertion object is truthy and recorded as triggered exactly when the Python relation does NOT hold.

    pre: True
    post: _
    """
    if tick():
        return True
    k = int(PART) if PART else 2
    name, cls, rel, kind = RELS[k]
    ia, ib = bits(a0, a1), bits(b0, b1)
    if kind == "int":
        ia, ib = bits(a0, a1, a2), bits(b0, b1, b2)
        if ia >= len(NUMS) or ib >= len(NUMS):
            return True
        a, b = NUMS[ia], NUMS[ib]
    elif ia >= 3:
        return True
    elif kind == "list":
        a, b = VALS[ia], LISTS[ib]
    elif kind == "len":
        a, b = LISTS[bits(a0, a1)], ib
    else:
        a = LISTS[1 + (ia % 3)]
        b = a if b0 else list(a)
    if excluded("C07.public_rel", name=name, a=a, b=b, wl=wl, wr=wr):
        return True
    want = rel(a, b)
    left = proxied(a) if wl else a
    right = proxied(b) if wr else b
    r = Report()
    if wl or wr:
        # pedal's proxy spoofs __class__ and forwards every dunder; CrossHair's own isinstance/len interception then
        # diverges from CPython (counterexamples that do not replay). With a proxy involved all values on this path
        # are concrete, so the real call runs untraced: the solver's part here is enumerating the grid.
        with NoTracing():
            fb = cls(left, right, report=r)
            return _recorded_ok(r, fb, not want)
    fb = cls(left, right, report=r)
    return _recorded_ok(r, fb, not want)


LAZY = [lambda: map(lambda v: v * v, [1, 2, 3]), lambda: filter(None, [0, 1, 4, 9]), lambda: zip([1, 4], [9, 16]),
        lambda: (v * v for v in [1, 2, 3]), lambda: reversed([9, 4, 1]), lambda: enumerate([1, 4, 9]),
        lambda: iter([1, 4, 9]), lambda: range(1, 10, 4)]
LAZY_EXPECT = [[1, 4, 9], [(1, 9), (4, 16)], [(0, 1), (1, 4), (2, 9)], [1, 5, 9], []]


def public_lazy(k0: bool, k1: bool, k2: bool, e0: bool, e1: bool, e2: bool, wrapped: bool, negated: bool,
                expected_first: bool) -> bool:
    """
    One-shot lazy results (map / filter / zip / generator / reversed / enumerate / iterator / range) as an operand of
    assert_equal / assert_not_equal, raw or proxied, on either side: the verdict is the same whether the operand is proxied
    or not (building the message must not use the iterator up), and for map / filter / zip / reversed / enumerate / range
    it is the relation between the ITEMS and the expected list.

    pre: True
    post: _
    """
    if tick():
        return True
    k, e = bits(k0, k1, k2), bits(e0, e1, e2)
    if e >= len(LAZY_EXPECT):
        return True
    wrapped, negated, expected_first = (True if wrapped else False), (True if negated else False), (True if expected_first else False)
    with NoTracing():
        items = list(LAZY[k]())
        expected = LAZY_EXPECT[e]
        cls = R.assert_not_equal if negated else R.assert_equal

        def verdict(operand):
            r = Report()
            fb = cls(expected, operand, report=r) if expected_first else cls(operand, expected, report=r)
            return r, fb

        r_raw, fb_raw = verdict(LAZY[k]())
        if not wrapped:
            r_used, fb_used = r_raw, fb_raw
        else:
            r_used, fb_used = verdict(proxied(LAZY[k]()))
        if bool(fb_used) != bool(fb_raw):          # plain versus proxied: the same verdict
            return False
        if k in (0, 1, 2, 4, 5, 7):                # the lazy builtins pedal documents as compared by their items
            holds = items == expected
            return _recorded_ok(r_used, fb_used, holds if negated else not holds)
        return _recorded_ok(r_used, fb_used, bool(fb_raw))


ONE_SIDED = [
    ("true", R.assert_true, lambda v: bool(v)),
    ("false", R.assert_false, lambda v: not bool(v)),
    ("is_none", R.assert_is_none, lambda v: v is None),
    ("is_not_none", R.assert_is_not_none, lambda v: v is not None),
]
ONE_VALUES = [0, 1, "", "a", None, [], [0]]


def public_unary(k0: bool, k1: bool, v0: bool, v1: bool, v2: bool, wrapped: bool) -> bool:
    """
    assert_true / assert_false / assert_is_none / assert_is_not_none, value raw or proxied.

    pre: True
    post: _
    """
    if tick():
        return True
    name, cls, rel = ONE_SIDED[bits(k0, k1)]
    iv = bits(v0, v1, v2)
    if iv >= len(ONE_VALUES):
        return True
    v = ONE_VALUES[iv]
    r = Report()
    if wrapped:
        with NoTracing():
            fb = cls(proxied(v), report=r)
            return _recorded_ok(r, fb, not rel(v))
    fb = cls(v, report=r)
    return _recorded_ok(r, fb, not rel(v))


# message text is not the subject (formatting sandbox objects makes CrossHair deep-copy the whole sandbox)
QUIET = {"context": False, "assertion": False}

# every two-operand / one-operand assertion must FAIL when an operand is an error
ERR_CLASSES = [
    ("equal", lambda e, r: R.assert_equal(e, 1, report=r, **QUIET)), ("not_equal", lambda e, r: R.assert_not_equal(e, 1, report=r, **QUIET)),
    ("less", lambda e, r: R.assert_less(e, 1, report=r, **QUIET)), ("greater_equal", lambda e, r: R.assert_greater_equal(e, 1, report=r, **QUIET)),
    ("in", lambda e, r: R.assert_in(e, [1], report=r, **QUIET)), ("not_in", lambda e, r: R.assert_not_in(e, [1], report=r, **QUIET)),
    ("not_in(right)", lambda e, r: R.assert_not_in(1, e, report=r, **QUIET)),
    ("true", lambda e, r: R.assert_true(e, report=r, **QUIET)), ("false", lambda e, r: R.assert_false(e, report=r, **QUIET)),
    ("is_none", lambda e, r: R.assert_is_none(e, report=r, **QUIET)), ("is_not_none", lambda e, r: R.assert_is_not_none(e, report=r, **QUIET)),
    ("length_equal", lambda e, r: R.assert_length_equal(e, 0, report=r, **QUIET)), ("is_not", lambda e, r: R.assert_is_not(e, 1, report=r, **QUIET)),
    ("not_is_instance", lambda e, r: R.assert_not_is_instance(e, int, report=r, **QUIET)),
    ("not_equal(right)", lambda e, r: R.assert_not_equal(1, e, report=r, **QUIET)),
    ("less(right)", lambda e, r: R.assert_less(0, e, report=r, **QUIET)),
]


def public_error(c0: bool, c1: bool, c2: bool, c3: bool, sandbox_err: bool) -> bool:
    """
    An operand that is an error (the exception a crashed call returned, or a ValueError instance handed in directly):
    every assertion fails, i.e. is truthy and recorded as triggered, and the call itself does not raise.

    pre: True
    post: _
    """
    if tick():
        return True
    k = bits(c0, c1, c2, c3)
    if k >= len(ERR_CLASSES):
        return True
    name, make = ERR_CLASSES[k]
    if excluded("C07.public_error", name=name, sandbox_err=sandbox_err):
        return True
    err = _ERR if sandbox_err else ValueError("boom")
    r = Report()
    fb = make(err, r)
    return _recorded_ok(r, fb, True)


# relations that cannot be evaluated for the operands (TypeError inside the comparison): count as NOT holding
UNEVAL = [
    ("less(5,'a')", lambda r: R.assert_less(5, "a", report=r, **QUIET)),
    ("greater_equal('a',1)", lambda r: R.assert_greater_equal("a", 1, report=r, **QUIET)),
    ("in(3,None)", lambda r: R.assert_in(3, None, report=r, **QUIET)),
    ("not_in(3,7)", lambda r: R.assert_not_in(3, 7, report=r, **QUIET)),
    ("length_equal(5,1)", lambda r: R.assert_length_equal(5, 1, report=r, **QUIET)),
    ("in(proxied '', '')", lambda r: _untraced_call(lambda: R.assert_in(proxied(""), "", report=r))),
    ("less_equal(None,1)", lambda r: R.assert_less_equal(None, 1, report=r, **QUIET)),
    ("length_less(None,1)", lambda r: R.assert_length_less(None, 1, report=r, **QUIET)),
]


def _untraced_call(thunk):
    with NoTracing():
        return thunk()


def public_unevaluable(c0: bool, c1: bool, c2: bool) -> bool:
    """
    The relation raises for these operands: the assertion call returns (no exception reaches the instructor) and the
    assertion counts as failed (truthy, recorded as triggered).

    pre: True
    post: _
    """
    if tick():
        return True
    k = bits(c0, c1, c2)
    name, make = UNEVAL[k]
    if excluded("C07.public_unevaluable", name=name, k=k):
        return True
    r = Report()
    fb = make(r)
    return _recorded_ok(r, fb, True)


KW = [{}, {"explanation": "because"}, {"context": False}, {"assertion": "custom text"}, {"context": "ctx", "assertion": False}]


def public_kwargs(k0: bool, k1: bool, k2: bool, a0: bool, a1: bool, b0: bool, b1: bool, neg: bool) -> bool:
    """
    The documented presentation keywords (explanation=, context=, assertion=) do not change the verdict of
    assert_equal / assert_not_equal.

    pre: True
    post: _
    """
    if tick():
        return True
    k, ia, ib = bits(k0, k1, k2), bits(a0, a1), bits(b0, b1)
    if k >= len(KW) or ia >= 3 or ib >= 3:
        return True
    a, b = VALS[ia], VALS[ib]
    r = Report()
    cls = R.assert_not_equal if neg else R.assert_equal
    fb = cls(a, b, report=r, **KW[k])
    holds = (a != b) if neg else (a == b)
    return _recorded_ok(r, fb, not holds)


def unit_tests(p0: bool, p1: bool, p2: bool, n0: bool, n1: bool, unevaluable: bool) -> bool:
    """
    unit_test('f', cases...) on a real student function f(x) = x with 1..3 cases whose expected values are right or
    wrong as chosen: succeeds exactly when all cases pass; the group reports the true pass count.

    pre: True
    post: _
    """
    if tick():
        return True
    n = 1 + bits(n0, n1)
    if n > 3:
        return True
    passes = [p0, p1, p2][:n]
    clear_report()
    contextualize_report("def f(x):\n    return x\n")
    sandbox_run()
    get_sandbox().result_proxy_class = None     # raw results: the proxy class cannot be constructed under tracing
    try:
        cases = [((i,), i if ok else i + 100) for i, ok in enumerate(passes)]
        if unevaluable:
            # a case whose comparison cannot be evaluated (str result against an int with assert_less) counts as NOT passing
            cases.append((("a",), 5))
        result = unit_test("f", *cases, **({"assert_function": R.assert_less_equal} if unevaluable else {}))
        groups = [f for f in MAIN_REPORT.feedback + MAIN_REPORT.ignored_feedback if isinstance(f, assert_group)]
        if len(groups) != 1:
            return False
        g = groups[0]
        if unevaluable:
            # with assert_less_equal: case (i,) -> i <= expected; the passing cases still pass (i <= i), the failing ones
            # also pass (i <= i + 100); only the unevaluable one does not: success_count must not include it
            return (bool(result) is False and g.fields["success_count"] == len(passes) and bool(g) is True)
        return (bool(result) == all(passes) and g.fields["success_count"] == sum(1 for p in passes if p)
                and g.fields["failure_count"] == sum(1 for p in passes if not p) and bool(g) == (not all(passes)))
    finally:
        clear_report()


def public_reach(a0: bool, a1: bool, wl: bool) -> bool:
    """
    Reachability twin: REFUTED (a proxied operand makes assert_less fail).

    pre: True
    post: _
    """
    if tick():
        return True
    ia = bits(a0, a1)
    if ia >= 3:
        return True
    r = Report()
    if wl:
        with NoTracing():
            fb = R.assert_less(proxied(VALS[ia]), 0, report=r)
            return not bool(fb)
    return True


TYPE_VALUES = [1, 1.5, "a", True, [1], ["a"], (1, "a"), {"k": 1}, None, []]
TYPE_SPECS = [int, float, str, bool, list, dict, tuple, list[int], list[str]]


def _conforms(v, spec):
    """Reference for the unambiguous cells; None = not settled (bool vs int, int vs float, empty list vs list[T])."""
    if spec in (list[int], list[str]):
        if not isinstance(v, list):
            return False
        if not v:
            return None
        want = int if spec == list[int] else str
        return all(type(e) is want for e in v)
    if isinstance(v, bool) and spec in (int, float):
        return None
    if type(v) is int and spec is float:
        return None
    return type(v) is spec


def type_menu(v0: bool, v1: bool, v2: bool, v3: bool, s0: bool, s1: bool, s2: bool, s3: bool) -> bool:
    """
    assert_type / assert_not_type on a 10-value x 9-type menu: silent exactly when the value is of the asserted type (cells
    the documentation leaves open - bool as int, int as float, [] as list[T] - are skipped); the two never agree.

    pre: True
    post: _
    """
    if tick():
        return True
    vi, si = bits(v0, v1, v2, v3), bits(s0, s1, s2, s3)
    if vi >= len(TYPE_VALUES) or si >= len(TYPE_SPECS):
        return True
    with NoTracing():       # menu values are concrete; evaluate() builds result proxies, which defeat tracing
        return _type_cell(TYPE_VALUES[vi], TYPE_SPECS[si])


def _type_cell(v, spec):
    clear_report()
    contextualize_report("pass")        # type names given as strings are evaluated in MAIN_REPORT's sandbox
    sandbox_run()
    try:
        p = R.assert_type(v, spec)
        n = R.assert_not_type(v, spec)
        want = _conforms(v, spec)
        if bool(p) == bool(n):
            return False
        return want is None or bool(p) == (not want)
    finally:
        clear_report()
