"""C03 - the final score follows the documented valence / trigger arithmetic.
Public API: Feedback(..., score=, valence=, muted=, unscored=), report.suppress, simple.resolve."""
from fractions import Fraction

from engine.prelude import tick, flag, excluded, bits, PART
from pedal.core.feedback import Feedback
from pedal.core.report import Report
from pedal.resolvers import simple

from resolver_common import SCORES, ref_score_contribution

VALENCES = [-1, 0, 1, None]
CATS = ["runtime", "instructor"]


def _run(specs, sup_runtime):
    """specs: list of (score_idx, valence_idx, activate, muted, unscored, cat_idx)"""
    r = Report()
    fbs = []
    for i, (s, v, a, mu, un, c) in enumerate(specs):
        kw = {}
        if SCORES[s][0] is not None:
            kw["score"] = SCORES[s][0]
        if VALENCES[v] is not None:
            kw["valence"] = VALENCES[v]
        if mu:
            kw["muted"] = True
        if un:
            kw["unscored"] = True
        fbs.append(Feedback(label="f%d" % i, category=CATS[c], message="M%d" % i, activate=a, report=r, **kw))
    if sup_runtime:
        r.suppress("runtime")
    final = simple.resolve(r)
    total = Fraction(0)
    any_eligible = False
    ok = True
    for i, (s, v, a, mu, un, c) in enumerate(specs):
        suppressed = bool(sup_runtime and CATS[c] == "runtime")
        if a and not mu and not suppressed:
            any_eligible = True
        contrib = ref_score_contribution(s, VALENCES[v], a, un, suppressed)
        total += contrib
        scored = SCORES[s][0] is not None and not un and not suppressed
        rs = fbs[i].resolved_score
        if scored:
            negative = VALENCES[v] == -1
            applies = (a and not negative) or ((not a) and negative)
            if rs is None or rs.startswith("!") == applies:
                ok = False
        elif rs is not None:
            ok = False
    if not any_eligible:
        return ok and final.score == 1
    flag("summed")
    return ok and final.score == round(float(total), 2)


def score2(s0a: bool, s0b: bool, s0c: bool, v0a: bool, v0b: bool, a0: bool,
           s1a: bool, s1b: bool, s1c: bool, v1a: bool, v1b: bool, a1: bool) -> bool:
    """
    Slice S1: score literal (8) x valence (-1, 0, 1, unset) x triggered, two feedbacks; the first score literal is
    fixed by the partition.

    pre: True
    post: _
    """
    if tick():
        return True
    s0 = int(PART) if PART else bits(s0a, s0b, s0c)
    specs = [(s0, bits(v0a, v0b), a0, False, False, 1), (bits(s1a, s1b, s1c), bits(v1a, v1b), a1, False, False, 1)]
    if excluded("C03.score2", specs=specs):
        return True
    return _run(specs, False)


def flags2(neg0: bool, a0: bool, mu0: bool, un0: bool, c0: bool,
           neg1: bool, a1: bool, mu1: bool, un1: bool, c1: bool) -> bool:
    """
    Slice S2: muted / unscored / suppressed-by-category x valence (-1 | 1) x triggered, two feedbacks scoring
    "+25%" and "-0.1" (or 0.25 and "+.5"); partition "sup,lit" = suppress('runtime') on/off, literal pair.

    pre: True
    post: _
    """
    if tick():
        return True
    sup, lit = [bool(int(x)) for x in (PART or "1,1").split(",")]
    sa, sb = (3, 5) if lit else (1, 7)
    specs = [(sa, 0 if neg0 else 2, a0, mu0, un0, 0 if c0 else 1), (sb, 0 if neg1 else 2, a1, mu1, un1, 0 if c1 else 1)]
    return _run(specs, sup)


def score3(v0a: bool, v0b: bool, a0: bool, v1a: bool, v1b: bool, a1: bool, v2a: bool, v2b: bool, a2: bool,
           mu0: bool, un1: bool) -> bool:
    """
    Three feedbacks, score literals fixed by the partition "i,j,k".

    pre: True
    post: _
    """
    if tick():
        return True
    s = [int(x) for x in (PART or "1,5,3").split(",")]
    specs = [(s[0], bits(v0a, v0b), a0, mu0, False, 1), (s[1], bits(v1a, v1b), a1, False, un1, 1),
             (s[2], bits(v2a, v2b), a2, False, False, 0)]
    return _run(specs, False)


LABELS = ["bonus", "Bonus_Check", "other"]


def else_scores(neg0: bool, a0: bool, e0: bool, mu0: bool, neg1: bool, a1: bool, e1: bool, un1: bool) -> bool:
    """
    An else_message (what an untriggered feedback says instead) changes what is SHOWN, not what is scored: two scored
    feedbacks (+25% / 0.5) with symbolic valence / triggered / else_message / muted / unscored next to a triggered mistake.

    pre: True
    post: _
    """
    if tick():
        return True
    r = Report()
    Feedback(label="wrong", category="instructor", message="W", activate=True, valence=-1, report=r)
    kw0 = {"else_message": "fine"} if e0 else {}
    kw1 = {"else_message": "fine too"} if e1 else {}
    Feedback(label="f0", category="instructor", message="M0", activate=a0, score="+25%", valence=-1 if neg0 else 1,
             muted=mu0, report=r, **kw0)
    Feedback(label="f1", category="instructor", message="M1", activate=a1, score=0.5, valence=-1 if neg1 else 1,
             unscored=un1, report=r, **kw1)
    final = simple.resolve(r)
    total = Fraction(0)
    if a0 != neg0:
        total += Fraction(1, 4)
    if a1 != neg1 and not un1:
        total += Fraction(1, 2)
    flag("summed")
    return final.score == round(float(total), 2)


def label_suppress(l0: bool, l1: bool, neg0: bool, a0: bool, mu0: bool, neg1: bool, a1: bool,
                   s0: bool, s1: bool, with_cat: bool) -> bool:
    """
    Suppression by LABEL (`report.suppress(label=L)` / `suppress('instructor', L)`): a feedback whose label is exactly L is
    suppressed and contributes no score; the other one counts. Feedback labels and L from {bonus, Bonus_Check, other}
    (equal spelling or a different word: letter-case variants of one word are not settled by the text), scores +25% / 0.5,
    valence, triggered, muted symbolic; a triggered gently() keeps the result away from the default.

    pre: True
    post: _
    """
    if tick():
        return True
    i0, i1, k = (1 if l0 else 0), (1 if l1 else 2), bits(s0, s1)
    if k == 3:
        return True
    r = Report()
    Feedback(label="wrong", category="instructor", message="W", activate=True, valence=-1, report=r)
    f0 = Feedback(label=LABELS[i0], category="instructor", message="M0", activate=a0, score="+25%",
                  valence=-1 if neg0 else 1, muted=mu0, report=r)
    f1 = Feedback(label=LABELS[i1], category="instructor", message="M1", activate=a1, score=0.5,
                  valence=-1 if neg1 else 1, report=r)
    if with_cat:
        r.suppress("instructor", LABELS[k])
    else:
        r.suppress(label=LABELS[k])
    final = simple.resolve(r)
    total = Fraction(0)
    if i0 != k and (a0 != neg0):
        total += Fraction(1, 4)
    if i1 != k and (a1 != neg1):
        total += Fraction(1, 2)
    flag("summed")
    return final.score == round(float(total), 2)


NUMERIC_SCORES = [0.00001, 1e-07, 0.004, 0.1, 5, 123456789.0, 1e16, -0.00001]


def numeric_magnitudes(k0: bool, k1: bool, k2: bool, j0: bool, j1: bool, j2: bool, neg0: bool, a0: bool, a1: bool) -> bool:
    """
    Scores given as NUMBERS of any magnitude (Python renders small and large floats in exponent notation): two feedbacks
    scoring values from {1e-05, 1e-07, 0.004, 0.1, 5, 123456789.0, 1e16, -1e-05} next to a triggered gently(); the final
    score is the exact sum of the ones that count, rounded to two decimals.

    pre: True
    post: _
    """
    if tick():
        return True
    s0, s1 = NUMERIC_SCORES[bits(k0, k1, k2)], NUMERIC_SCORES[bits(j0, j1, j2)]
    r = Report()
    Feedback(label="wrong", category="instructor", message="W", activate=True, valence=-1, report=r)
    Feedback(label="f0", category="instructor", message="M0", activate=a0, score=s0, valence=-1 if neg0 else 1, report=r)
    Feedback(label="f1", category="instructor", message="M1", activate=a1, score=s1, valence=1, report=r)
    final = simple.resolve(r)
    total = Fraction(0)
    if a0 != neg0:
        total += Fraction(s0)
    if a1:
        total += Fraction(s1)
    want = round(float(total), 2)
    if abs(Fraction(want) - total) == Fraction(1, 200):
        return True                      # a tie at the third decimal: float rounding of ties is not part of the property
    flag("summed")
    return final.score == want


def score_reach(a0: bool, a1: bool) -> bool:
    """
    Reachability twin: REFUTED when an untriggered negative awards its points next to a triggered one.

    pre: True
    post: _
    """
    if tick():
        return True
    r = Report()
    Feedback(label="f0", category="instructor", message="M0", activate=a0, score="+25%", valence=-1, report=r)
    Feedback(label="f1", category="instructor", message="M1", activate=a1, score=0.25, valence=-1, report=r)
    final = simple.resolve(r)
    return not (a0 and not a1 and final.score == 0.25)


PERCENTS = [("+2.5%", Fraction(1, 40)), ("12.5%", Fraction(1, 8)), ("-0.5%", Fraction(-1, 200)), ("+33%", Fraction(33, 100)),
            ("+0.25", Fraction(1, 4)), ("+100%", Fraction(1))]


def percent_forms(p0: bool, p1: bool, p2: bool, n0: bool, n1: bool, triggered_negative: bool) -> bool:
    """
    'N%' equals N/100 also for fractional percents: 1..4 identical positive feedbacks scoring a literal from
    {+2.5%, 12.5%, -0.5%, +33%, +0.25, +100%} next to a triggered gently(): the final score is the exact sum rounded to
    two decimals (sums whose third decimal is a 5 are skipped: float rounding of ties is not part of the property).

    pre: True
    post: _
    """
    if tick():
        return True
    k, n = bits(p0, p1, p2), 1 + bits(n0, n1)
    if k >= len(PERCENTS):
        return True
    lit, val = PERCENTS[k]
    total = val * n
    if (total * 1000) % 10 == 5:
        return True
    r = Report()
    for i in range(n):
        Feedback(label="p%d" % i, category="instructor", message="ok", valence=1, score=lit, muted=True, report=r)
    Feedback(label="bad", category="instructor", message="bad", valence=-1, activate=triggered_negative, report=r)
    Feedback(label="shown", category="runtime", message="shown", report=r)
    final = simple.resolve(r)
    return final.score == round(float(total), 2)
