"""C01 - the resolver shows the highest-priority eligible feedback and nothing ineligible.

Everything goes through pedal's public API: Feedback(...), report.suppress(...), simple.resolve / full.resolve.
Menus are enumerated path by path by the solver (finite, stated); labels, messages, field values and
suppression arguments are genuinely symbolic.
"""
from engine.prelude import tick, flag, excluded, bits, PART
from pedal.core.feedback import Feedback
from pedal.core.report import Report
from pedal.resolvers import simple, full

from resolver_common import (RANK, KINDS, COMPLIMENT, spec_key, Sup, suppression_status, DEFAULT_LABEL)

CATS = ["syntax", "runtime", "Instructor", "system", "weird", None]
PRIOS = [None, "high", "low", "student", "parser", "lowest", "highest", "Analyzer"]


def _part(n, default):
    if PART:
        return [int(x) for x in PART.split(",")][:n]
    return default


def _default_ok(final):
    return (final.label == DEFAULT_LABEL and final.title == "Complete" and final.message == "Great work!"
            and final.category == "complete")


def _check_winner(final, report, cands, fbs):
    """cands: list of (key, index) of eligible feedback; fbs: created objects."""
    if not cands:
        return _default_ok(final)
    w = min(cands)[1]
    fb = fbs[w]
    return (final.label == fb.label and final.message == fb.message and final.title == (fb.title or fb.label)
            and final.category == fb.category and final.used == [fb])


# ---------------------------------------------------------------------------------------------
# Slice A: ordering.  category x priority x activate for each feedback, everything else default.
def order2(c0a: bool, c0b: bool, c0c: bool, p0a: bool, p0b: bool, p0c: bool, a0: bool,
           c1a: bool, c1b: bool, c1c: bool, p1a: bool, p1b: bool, p1c: bool, a1: bool,
           m0: str, m1: str) -> bool:
    """
    pre: True
    post: _
    """
    if tick():
        return True
    fixed = _part(2, None)
    c0, p0 = (fixed if fixed else (bits(c0a, c0b, c0c), bits(p0a, p0b, p0c)))
    c1, p1 = bits(c1a, c1b, c1c), bits(p1a, p1b, p1c)
    if c0 >= 6 or c1 >= 6 or p0 >= 8 or p1 >= 8:
        return True
    if excluded("C01.order2", c0=c0, p0=p0, a0=a0, c1=c1, p1=p1, a1=a1):
        return True
    r = Report()
    specs = [(c0, p0, a0, m0), (c1, p1, a1, m1)]
    fbs = [Feedback(label="f%d" % i, category=CATS[c], priority=PRIOS[p], activate=a, message=m, report=r)
           for i, (c, p, a, m) in enumerate(specs)]
    final = simple.resolve(r)
    cands = [(spec_key(CATS[c], PRIOS[p]), i) for i, (c, p, a, m) in enumerate(specs) if a]
    return _check_winner(final, r, cands, fbs)


def order3(x0: bool, y0: bool, a0: bool, x1a: bool, x1b: bool, y1a: bool, y1b: bool, a1: bool,
           x2a: bool, x2b: bool, y2a: bool, y2b: bool, a2: bool) -> bool:
    """
    Three feedbacks; menus reduced to entries giving every relation (<, =, >) between keys and both offsets.

    pre: True
    post: _
    """
    if tick():
        return True
    C3 = ["runtime", "Syntax", "weird"]
    P3 = [None, "low", "student"]
    fixed = _part(2, None)
    i0 = fixed if fixed else (bits(x0, False), bits(y0, False))
    idx = [i0, (bits(x1a, x1b), bits(y1a, y1b)), (bits(x2a, x2b), bits(y2a, y2b))]
    if any(c >= 3 or p >= 3 for c, p in idx):
        return True
    acts = [a0, a1, a2]
    r = Report()
    fbs = [Feedback(label="f%d" % i, category=C3[c], priority=P3[p], activate=acts[i], message="M%d" % i, report=r)
           for i, (c, p) in enumerate(idx)]
    final = simple.resolve(r)
    cands = [(spec_key(C3[c], P3[p]), i) for i, (c, p) in enumerate(idx) if acts[i]]
    return _check_winner(final, r, cands, fbs)


def order_reach(c1a: bool, c1b: bool, c1c: bool, a0: bool, a1: bool) -> bool:
    """
    Reachability twin: REFUTED when the later-created feedback wins on rank.

    pre: True
    post: _
    """
    if tick():
        return True
    c1 = bits(c1a, c1b, c1c)
    if c1 >= 6:
        return True
    r = Report()
    Feedback(label="f0", category="runtime", activate=a0, message="M0", report=r)
    Feedback(label="f1", category=CATS[c1], activate=a1, message="M1", report=r)
    final = simple.resolve(r)
    return not (final.label == "f1" and a0)


# ---------------------------------------------------------------------------------------------
# Slice B1: eligibility flags (no suppressions). f1 out-ranks f0 whenever it is eligible.
def flags2(a0: bool, mu0: bool, k0a: bool, k0b: bool, e0: bool,
           a1: bool, mu1: bool, k1a: bool, k1b: bool, e1: bool, use_full: bool) -> bool:
    """
    activate / muted / kind (default, Compliment, Instructional) / else_message for two feedbacks.

    pre: True
    post: _
    """
    if tick():
        return True
    k0, k1 = bits(k0a, k0b), bits(k1a, k1b)
    if k0 >= 3 or k1 >= 3:
        return True
    r = Report()
    specs = [("runtime", a0, mu0, k0, e0), ("syntax", a1, mu1, k1, e1)]
    fbs = []
    for i, (cat, a, mu, k, e) in enumerate(specs):
        kw = {}
        if mu:
            kw["muted"] = True
        if KINDS[k] is not None:
            kw["kind"] = KINDS[k]
        if e:
            kw["else_message"] = "E%d" % i
        fbs.append(Feedback(label="f%d" % i, category=cat, activate=a, message="M%d" % i, report=r, **kw))
    final = (full.resolve(r) if use_full else simple.resolve(r))
    elig = [bool(a and not mu and KINDS[k] != COMPLIMENT) for (cat, a, mu, k, e) in specs]
    cands = [(spec_key(specs[i][0], None), i) for i in range(2) if elig[i]]
    if not cands:
        ok = _default_ok(final)
    else:
        w = min(cands)[1]
        ok = final.label == fbs[w].label and final.message == "M%d" % w and final.title == "f%d" % w
    if use_full:
        used = final.used
        for i, (cat, a, mu, k, e) in enumerate(specs):
            inside = any(u is fbs[i] for u in used)
            if elig[i] and not inside:
                return False
            if inside and ((a and mu) or ((not a) and not e)):
                return False
    return ok


# ---------------------------------------------------------------------------------------------
# Slice B2: suppressions.  f0 is the feedback under test; f1 is a never-suppressed, lower-ranked fallback.
SCATS = ["RUNTIME", "parser", "weird"]     # spellings handed to suppress(): case variant, alias, unrelated
FCATS = ["runtime", "syntax"]               # categories of f0
SLABELS = ["a", "b", "A", "Ab"]             # suppress() labels: equal / different / case variant of "a"; equal to "Ab"
FLABELS = ["a", "Ab"]                       # label of f0 (lower case, and mixed case as a CamelCase class name gives)
FORMS = ["cat", "cat+label", "label", "label+fields", "cat+label+fields"]


def _mk_sup(form, sc, sl, sv):
    if form == 0:
        return Sup(SCATS[sc], True, None)
    if form == 1:
        return Sup(SCATS[sc], sl, None)
    if form == 2:
        return Sup(None, sl, None)
    if form == 3:
        return Sup(None, sl, {"k": sv})
    return Sup(SCATS[sc], sl, {"k": sv})


def suppress2(fc: bool, fl: bool, fv: int, has_field: bool, fw: int, two_fields: bool,
              sa_c0: bool, sa_c1: bool, sa_l0: bool, sa_l1: bool, sa_v: int,
              sb_c0: bool, sb_c1: bool, sb_l0: bool, sb_l1: bool, sb_v: int) -> bool:
    """
    One or two suppress() calls whose forms are fixed by the partition ("i[,j][,F]" over cat / cat+label /
    label / label+fields / cat+label+fields; trailing F = use the full resolver); category spelling and label
    from menus, field values symbolic ints; f0 has label "a", a symbolic field and category runtime|syntax.

    pre: True
    post: _
    """
    if tick():
        return True
    use_full = PART.endswith("F")
    forms = [int(x) for x in (PART.rstrip(",F") or "1,2").split(",") if x != ""]
    ca, cb = bits(sa_c0, sa_c1), bits(sb_c0, sb_c1)
    la, lb = bits(sa_l0, sa_l1), bits(sb_l0, sb_l1)
    if ca >= 3 or cb >= 3:
        return True
    fcat = FCATS[1 if fc else 0]
    flabel = FLABELS[1 if fl else 0]
    if excluded("C01.suppress2", forms=forms, fcat=fcat, flabel=flabel, fv=fv, has_field=has_field, ca=ca, la=la,
                sa_v=sa_v, cb=cb, lb=lb, sb_v=sb_v):
        return True
    sups = [_mk_sup(forms[0], ca, SLABELS[la], sa_v)]
    if len(forms) > 1:
        sups.append(_mk_sup(forms[1], cb, SLABELS[lb], sb_v))
    if two_fields:
        for s_ in sups:                      # suppressions naming two fields: BOTH must match
            if s_.fields is not None:
                s_.fields = {"k": s_.fields["k"], "w": 7}
    r = Report()
    fields = {"k": fv} if has_field else {}
    if two_fields:
        fields["w"] = fw
    f0 = Feedback(label=flabel, category=fcat, message="M0", fields=dict(fields), report=r)
    f1 = Feedback(label="zz-fallback", category="lowest", message="M1", report=r)
    for s in sups:
        s.apply(r)
    final = (full.resolve(r) if use_full else simple.resolve(r))
    st = suppression_status(sups, fcat, flabel, fields)
    if st == -1:
        return True           # labels differing only by case: not settled by the property text
    if st == 1:
        flag("suppressed")
        ok = final.label == "zz-fallback" and final.message == "M1"
        if use_full:
            ok = ok and not any(u is f0 for u in final.used)
        return ok
    ok = final.label == flabel and final.message == "M0"
    if use_full:
        ok = ok and any(u is f0 for u in final.used)
    return ok


def suppress_reach(fl: str, sa_l: str, fv: int, sa_v: int) -> bool:
    """
    Reachability twin: REFUTED when a label+fields suppression matches f0.

    pre: len(fl) == 1 and len(sa_l) == 1
    post: _
    """
    if tick():
        return True
    r = Report()
    Feedback(label=fl, category="runtime", message="M0", fields={"k": fv}, report=r)
    Feedback(label="zz-fallback", category="lowest", message="M1", report=r)
    r.suppress("runtime", sa_l, {"k": sa_v})
    final = simple.resolve(r)
    return final.label != "zz-fallback"


# ---------------------------------------------------------------------------------------------
# Slice C: ties go to the feedback created first.
def ties3(a0: bool, mu0: bool, a1: bool, mu1: bool, a2: bool, mu2: bool, pa: bool, pb: bool) -> bool:
    """
    Three feedbacks with identical category and priority; the first eligible one in creation order wins.

    pre: True
    post: _
    """
    if tick():
        return True
    p = bits(pa, pb)
    if p >= 3:
        return True
    prio = [None, "high", "student"][p]
    r = Report()
    acts, mus = [a0, a1, a2], [mu0, mu1, mu2]
    fbs = []
    for i in range(3):
        kw = {"muted": True} if mus[i] else {}
        fbs.append(Feedback(label="f%d" % i, category="Instructor", priority=prio, activate=acts[i],
                            message="M%d" % i, report=r, **kw))
    final = simple.resolve(r)
    elig = [i for i in range(3) if acts[i] and not mus[i]]
    if not elig:
        return _default_ok(final)
    return final.label == "f%d" % elig[0] and final.message == "M%d" % elig[0]


# ---------------------------------------------------------------------------------------------
# Glue: every row of the documented rank table through the real resolve() (ties E2's table result to it).
def rank_rows(b0: bool, b1: bool, b2: bool, b3: bool, d0: bool, d1: bool, d2: bool, d3: bool) -> bool:
    """
    pre: True
    post: _
    """
    if tick():
        return True
    i0, i1 = bits(b0, b1, b2, b3), bits(d0, d1, d2, d3)
    if i0 >= 13 or i1 >= 13:
        return True
    names = RANK + ["some-other-category"]
    r = Report()
    Feedback(label="f0", category=names[i0], message="M0", report=r)
    Feedback(label="f1", category=names[i1], message="M1", report=r)
    final = simple.resolve(r)
    return final.label == ("f1" if i1 < i0 else "f0")
