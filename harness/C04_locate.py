"""C04 (location part) - the runtime feedback is located on the student's own line.
Real exec of CONCRETE student programs from a menu (the solver only enumerates the menu; the bodies run untraced). The
expected line is what CPython's own traceback reports for the innermost student frame."""
import sys
import traceback

from engine.prelude import tick, bits, PART, untraced, untrace_patches
from crosshair.tracers import NoTracing
from pedal.core.report import Report
from pedal.core.commands import contextualize_report
from pedal.sandbox.sandbox import Sandbox

untrace_patches()

PROGRAMS = [
    "x = 1\ny = 1 / 0\n",
    "def f():\n    return [][1]\nz = 0\nf()\n",
    "try:\n    x = int('a')\nfinally:\n    y = 2\n    z = 3\n",
    "try:\n    x = {}['k']\nexcept KeyError:\n    y = 1\n    raise\n",
    "def g(n):\n    try:\n        return 1 // n\n    finally:\n        n = n + 1\n        n = n + 1\ng(0)\n",
    "class E(Exception):\n    pass\ndef h():\n    try:\n        raise E('x')\n    except E:\n        a = 1\n        b = 2\n        raise\nh()\n",
    "with open.__class__ and memoryview(b'a') as m:\n    t = m[5]\n",
    "for i in range(3):\n    if i == 2:\n        v = None + i\n",
    # a failure 9 call levels deep, raised on its own line
    "".join("def f%d(n):\n    return f%d(n)\n" % (i, i + 1) for i in range(9)) + "def f9(n):\n    k = n\n    return k / 0\nf0(1)\n",
    "def rec(n):\n    if n == 0:\n        return [][0]\n    return rec(n - 1)\nrec(12)\n",
    # raised INSIDE a pure-Python library function the student called: the student's line is the calling line
    "import random\nx = 1\ny = random.choice([])\n",
    "import json\n\njson.loads('{')\n",
    # raised on a student line that is reached THROUGH library frames
    "from contextlib import contextmanager\n@contextmanager\ndef cm():\n    yield 1\n    raise ValueError('late')\nwith cm() as c:\n    d = c\n",
    "import heapq\ndef key(v):\n    return 1 / v\nheapq.nsmallest(1, [1, 0], key=key)\n",
    # a file that does not compile: the line the SyntaxError names
    "x = 1\ny = (\n",
    "def f(a):\n    return a\n  z = 3\n",
]


def _cpython_line(code):
    try:
        exec(compile(code, "answer.py", "exec"), {"__name__": "__main__"})
    except Exception as e:
        tb = e.__traceback__
        line = None
        if isinstance(e, SyntaxError) and e.filename == "answer.py":
            line = e.lineno
        while tb is not None:
            if tb.tb_frame.f_code.co_filename == "answer.py":
                line = tb.tb_lineno
            tb = tb.tb_next
        return type(e).__name__, line
    return None, None


def locate(k0: bool, k1: bool, k2: bool, k3: bool, as_call: bool) -> bool:
    """
    run() on a failing program (menu of 16, incl. failures 9 and 13 call levels deep, failures raised inside or through
    library frames, files that do not compile: plain failure, failure in a called function, inside try/finally, re-raised
    from an except block, in a with block, in a loop): one runtime feedback whose location.line is the line CPython's
    traceback gives for the innermost student frame; also when the failing code is reached through call().

    pre: True
    post: _
    """
    if tick():
        return True
    k = bits(k0, k1, k2, k3)
    if k >= len(PROGRAMS):
        return True
    with NoTracing():
        code = PROGRAMS[k]
        name, line = _cpython_line(code)
        if name is None:
            return True
        r = Report()
        if as_call and code.lstrip().startswith(("def ", "class ")) and code.rstrip().endswith(")"):
            # define only, then call the last function through call()
            body, last = code.rstrip().rsplit("\n", 1)
            contextualize_report(body + "\n", report=r)
            sb = Sandbox(report=r)
            sb.result_proxy_class = None
            sb.run()
            fname = last.split("(")[0]
            args = eval("(" + last.split("(", 1)[1].rstrip(")") + ",)") if last.split("(", 1)[1].rstrip(")") else ()
            sb.call(fname, *args)
        else:
            contextualize_report(code, report=r)
            sb = Sandbox(report=r)
            sb.run()
        runtime = [f for f in r.feedback if f.category == "runtime"]
        return (len(runtime) == 1 and type(sb.exception).__name__ in (name, "KeyError") and runtime[0].location is not None
                and runtime[0].location.line == line)


REAL_PROGRAMS = [
    "compile('1', 'f', 'eval')\n", "eval('1 + 1')\n", "exec('x = 1')\n", "g = globals()\n", "exit()\n",
    "import pedal\n", "from pedal.core import report\n", "open('/etc/passwd')\n", "import sys\nsys.exit(2)\n",
    "raise SystemExit\n", "def r():\n    return r()\nr()\n",
    "class E(Exception):\n    def __str__(self):\n        raise ValueError('no')\nraise E()\n",
    "class F(Exception):\n    def __repr__(self):\n        raise ValueError('no')\nraise F('x')\n",
    "import sys\nsys.stdout.close()\nx = 1 / 0\n", "x = (\n", "def f(:\n    pass\n",
]


def real_programs(k0: bool, k1: bool, k2: bool, k3: bool, evaluate: bool) -> bool:
    """
    Real exec of 16 concrete programs that use a blocked builtin / module, exit the interpreter, recurse without bound,
    raise an exception with broken __str__/__repr__, close stdout before failing, or do not compile: run() (and
    evaluate() for the one-liners) returns normally, the failure is the sandbox's exception and exactly one
    runtime-category feedback is attached.

    pre: True
    post: _
    """
    if tick():
        return True
    k = bits(k0, k1, k2, k3)
    evaluate = True if evaluate else False
    with NoTracing():
        code = REAL_PROGRAMS[k]
        r = Report()
        contextualize_report(code if not evaluate else "pass", report=r)
        sb = Sandbox(report=r)
        sb.result_proxy_class = None
        so = sys.stdout
        try:
            if evaluate:
                line = code.strip()
                if "\n" in line or line.startswith(("import", "from", "raise", "x =", "g =", "def")):
                    return True
                sb.evaluate(line)
            else:
                sb.run()
        except Exception:
            return False
        finally:
            while sb._current_patches:
                sb._stop_patches()
            sys.stdout = so
        runtime = [f for f in r.feedback + r.ignored_feedback if f.category == "runtime"]
        return sb.exception is not None and len(runtime) == 1 and bool(runtime[0])


ODD_EXCEPTIONS = [
    "from dataclasses import dataclass\n@dataclass(frozen=True)\nclass E(Exception):\n    code: int\nraise E(3)\n",
    "class E(Exception):\n    def __setattr__(self, name, value):\n        raise TypeError('read only')\nraise E('x')\n",
    "class MyErr(KeyError):\n    pass\nraise MyErr('a')\n",
    "class E(Exception):\n    def __init__(self, a, b):\n        super().__init__(a)\n        self.b = b\nraise E(1, 2)\n",
    "raise ValueError({'k': [1, 2]}, ('t',), None)\n",
    "class E(Exception):\n    __slots__ = ('extra',)\nraise E('s')\n",
    "class Meta(type):\n    pass\nclass E(Exception, metaclass=Meta):\n    pass\nraise E()\n",
    "def f():\n    raise LookupError\nf()\n",
    "raise type('', (Exception,), {})()\n",
    "E = type('error', (ValueError,), {})\nraise E('lower-case name')\n",
    "class Outer:\n    class Inner(Exception):\n        pass\nraise Outer.Inner()\n",
    "raise Exception\n",
]


def odd_exceptions(k0: bool, k1: bool, k2: bool, k3: bool, as_call: bool) -> bool:
    """
    Real exec of programs raising UNUSUAL exception objects - a frozen dataclass, one whose __setattr__ refuses, a KeyError
    subclass, a two-argument constructor, container arguments, __slots__, a metaclass, a bare class, a class WITHOUT a name,
    a lower-case class name, a nested class, the bare Exception class: run() (or call() of
    a wrapper function) returns normally, the failure is the sandbox's exception, exactly one runtime-category feedback is
    attached and it is located on the raising line.

    pre: True
    post: _
    """
    if tick():
        return True
    k = bits(k0, k1, k2, k3)
    if k >= len(ODD_EXCEPTIONS):
        return True
    as_call = True if as_call else False
    with NoTracing():
        code = ODD_EXCEPTIONS[k]
        name, line = _cpython_line(code)
        r = Report()
        so = sys.stdout
        try:
            if as_call:
                wrapped = "def main():\n" + "".join("    " + ln + "\n" for ln in code.splitlines()) + "\n"
                contextualize_report(wrapped, report=r)
                sb = Sandbox(report=r)
                sb.result_proxy_class = None
                sb.run()
                sb.call("main")
                line = line + 1
            else:
                contextualize_report(code, report=r)
                sb = Sandbox(report=r)
                sb.run()
        except Exception:
            return False
        finally:
            sys.stdout = so
        runtime = [f for f in r.feedback if f.category == "runtime"]
        return (len(runtime) == 1 and sb.exception is not None and runtime[0].location is not None
                and runtime[0].location.line == line)


HELPERS = ["y = 1 / 0\n", "y = 1\n", "import missing_module_xyz\n", "def g():\n    return [][0]\ny = g()\n"]


def multi_file(h0: bool, h1: bool, lazy: bool, guarded_first: bool, times2: bool) -> bool:
    """
    A submission of TWO files: answer.py imports helper.py, whose import fails (or not: helper from a menu of 4). Histories:
    run() once or twice; the import at module level or inside a function reached through call(); optionally a first,
    guarded import (try/except) followed by an unguarded one in the same run. EVERY execution that reaches a failing
    import ends with the failure - the exception class CPython itself raises for that helper - as the sandbox's exception and
    exactly one new runtime feedback, also the second time.

    pre: True
    post: _
    """
    if tick():
        return True
    helper = HELPERS[bits(h0, h1)]
    lazy, guarded_first, times2 = (True if lazy else False), (True if guarded_first else False), (True if times2 else False)
    with NoTracing():
        from pedal.core.submission import Submission
        guard = "try:\n    import helper\nexcept Exception:\n    pass\n" if guarded_first else ""
        if lazy:
            main = "def use():\n" + "".join("    " + ln + "\n" for ln in (guard + "import helper\nreturn helper.y\n").splitlines())
        else:
            main = guard + "import helper\nz = helper.y\n"
        try:
            exec(compile(helper, "helper.py", "exec"), {"__name__": "helper"})
            helper_fails, expected = False, None
        except Exception as e:
            helper_fails, expected = True, type(e).__name__       # what CPython itself raises for this helper
        r = Report()
        r.contextualize(Submission({"answer.py": main, "helper.py": helper}, "answer.py", main))
        sb = Sandbox(report=r)
        sb.result_proxy_class = None
        so = sys.stdout
        try:
            for i in range(2 if times2 else 1):
                before = len([f for f in r.feedback if f.category == "runtime"])
                sb.run()
                if lazy:
                    if sb.exception is not None:
                        return False            # defining the function cannot fail
                    sb.call("use")
                after = len([f for f in r.feedback if f.category == "runtime"])
                if helper_fails:
                    if sb.exception is None or after != before + 1 or type(sb.exception).__name__ != expected:
                        return False
                elif sb.exception is not None or after != before:
                    return False
        except Exception:
            return False
        finally:
            sys.stdout = so
        return True
