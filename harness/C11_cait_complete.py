"""C11 - CAIT finds every occurrence that exists by construction.
The pattern is DERIVED from the student program itself (whole program, one statement, a sub-expression replaced by ___ or
__e__, every occurrence of one identifier replaced by _v_, a sibling statement dropped; the derivation is chosen by
symbolic bits). The pattern must be source text, so the leaves of the student program come from small menus (the solver
enumerates them, including coincidences such as two variables that happen to be equal)."""
import ast

from engine.prelude import tick, flag, excluded, bits, PART
from crosshair.tracers import NoTracing
from pedal.cait.cait_node import CaitNode
from pedal.cait.stretchy_tree_matching import StretchyTreeMatcher
from pedal.core.report import Report
from pedal.core.commands import contextualize_report

TEMPLATES = [
    "{n1} = {n2} + {c1}",
    "{n1} = {c1} * {n2}",
    "{n1} = {n2} - {n3}",
    "{n1} += {c1}",
    "if {n1} < {c1}:\n    {n2} = {c2}\nelse:\n    {n3} = {n1}",
    "for {n1} in {n2}:\n    {n3} = {n3} + {n1}",
    "{n1}({n2}, {c1})",
    "{n1}.{n2}({c1})",
    "while {n1} > {c1}:\n    {n1} = {n1} - {c2}",
    "{n1} = {c1}\n{n2} = {c2}\n{n3}({n1})",
    "def {n1}({n2}):\n    return {n2} + {c1}",
    "{n1} = {c1}\n{n2} = {c2}\nprint({n2})\nprint({n1})",
    "{n1} = [{c1}, {c2}]\n{n2} = {n1}[0] + {n3}",
    "try:\n    {n1} = {n2}({c1})\nexcept ValueError:\n    {n1} = {c2}\n    print({n3})\nfinally:\n    print({n1})",
    "def f({n1}):\n    for {n2} in {n1}:\n        if {n2} > {c1}:\n            return {n2}\n    return {c2}",
    "{n1} = {n2}({c1}, {c2})\n{n3} = max({c1}, {c2})\nz = {n2}({c2}, {c1})",
    "match {n1}:\n    case {c1}:\n        {n2} = {c2}\n    case _:\n        {n3} = {n1}\n        raise ValueError({n2})",
    "{n1} = {n2}.__len__() + {c1}\n{n3}.__init__({n1})\nprint({n2}.__class__)",
]
NAMES = ["a", "b", "ab"]
CONSTS = ["0", "1", "2", "'s'"]


def _exprs(tree):
    """Sub-expression positions that may be generalised (every expression node except operator/context helpers)."""
    inside_case_pattern = {id(x) for n in ast.walk(tree) if isinstance(n, ast.pattern) for x in ast.walk(n)}
    # (`case 0:` -> `case ___:` would turn a value pattern into a capture pattern: not a sub-expression position)
    return [n for n in ast.walk(tree) if isinstance(n, ast.expr) and id(n) not in inside_case_pattern]


class _Replace(ast.NodeTransformer):
    def __init__(self, target, new_id):
        self.target, self.new_id = target, new_id

    def generic_visit(self, node):
        if node is self.target:
            return ast.copy_location(ast.Name(id=self.new_id, ctx=getattr(node, "ctx", ast.Load())), node)
        return super().generic_visit(node)


class _Rename(ast.NodeTransformer):
    def __init__(self, old, new):
        self.old, self.new = old, new

    def visit_Name(self, node):
        if node.id == self.old:
            node.id = self.new
        return node

    def visit_arg(self, node):
        if node.arg == self.old:
            node.arg = self.new
        return node


def _match(pattern, code, pre_search=False):
    r = Report()
    contextualize_report(code, report=r)
    tree = ast.parse(code)
    root = CaitNode(tree, report=r)
    if pre_search:
        # an earlier, unrelated search on the SAME parsed program (what instructors do all the time): sub-searches whose
        # subject is a statement inside a body, and a whole-program search
        for kind in ("Expr", "Assign", "Return"):
            for node in root.find_all(kind):
                node.find_matches("___(___)")
                node.find_matches("___ = ___")
        StretchyTreeMatcher("___", report=r).find_matches(root)
    return StretchyTreeMatcher(pattern, report=r).find_matches(root), tree


def derive(a0: bool, a1: bool, b0: bool, b1: bool, c0: bool, c1: bool, k0: bool, k1: bool, q0: bool, q1: bool,
           p0: bool, p1: bool, p2: bool, p3: bool) -> bool:
    """
    Partition "t,d[,q]": student program = template t filled with identifiers from {a, b, ab} and constants from
    {0, 1, 2, 's'} (trailing q: constants from {0, 1} only; trailing s: other searches ran on the same parsed program
    before); derivation kind d in {0 whole, 1 one statement, 2 ___ for a
    sub-expression, 3 __e__ for a sub-expression, 4 _v_ for an identifier, 5 drop a statement, 6 _v_ and ___ together,
    7/8 drop a statement + _v_ + ___ for every constant (+ ___ for another name)};
    position p symbolic. The derived pattern must match, and some match must bind the
    placeholder to what it replaced.

    pre: True
    post: _
    """
    if tick():
        return True
    parts = (PART or "0,4").split(",")
    t, d = int(parts[0]), int(parts[1])
    if "q" in parts[2:] and (k1 or q1):
        return True
    pre_search = "s" in parts[2:]
    i1, i2, i3 = bits(a0, a1), bits(b0, b1), bits(c0, c1)
    if i1 >= 3 or i2 >= 3 or i3 >= 3:
        return True
    n1, n2, n3 = NAMES[i1], NAMES[i2], NAMES[i3]
    c1, c2 = CONSTS[bits(k0, k1)], CONSTS[bits(q0, q1)]
    p = bits(p0, p1, p2, p3)
    if excluded("C11.derive", t=t, n1=n1, n2=n2, n3=n3, c1=c1, c2=c2, d=d, p=p):
        return True
    with NoTracing():       # everything below is concrete (menu values): run the real matcher at native speed
        return _derive_concrete(t, n1, n2, n3, c1, c2, d, p, pre_search)


def _derive_concrete(t, n1, n2, n3, c1, c2, d, p, pre_search=False):
    code = TEMPLATES[t].format(n1=n1, n2=n2, n3=n3, c1=c1, c2=c2)
    pat_tree = ast.parse(code)
    want_var, want_expr = None, None
    if d == 0:
        pass
    elif d == 1:
        stmts = [n for n in ast.walk(pat_tree) if isinstance(n, ast.stmt)]      # ANY statement, also nested ones
        stmt = stmts[p % len(stmts)]
        pat_tree = ast.Module(body=[stmt], type_ignores=[])
    elif d in (2, 3):
        ex = _exprs(pat_tree)
        target = ex[p % len(ex)]
        if isinstance(target, ast.Name) and isinstance(target.ctx, ast.Store) and d == 3:
            return True          # an assignment target is not an expression position
        want_expr = (type(target).__name__, target.lineno, target.col_offset) if d == 3 else None
        pat_tree = _Replace(target, "___" if d == 2 else "__e__").visit(pat_tree)
    elif d in (4, 6):
        ids = sorted({n.id for n in ast.walk(pat_tree) if isinstance(n, ast.Name)})
        old = ids[p % len(ids)]
        pat_tree = _Rename(old, "_v_").visit(pat_tree)
        want_var = old
        if d == 6:
            ex = [e for e in _exprs(pat_tree) if isinstance(e, ast.Constant)]
            if ex:
                pat_tree = _Replace(ex[0], "___").visit(pat_tree)
    elif d == 5:
        if len(pat_tree.body) < 2:
            return True
        drop = p % len(pat_tree.body)
        pat_tree = ast.Module(body=[s for i, s in enumerate(pat_tree.body) if i != drop], type_ignores=[])
    elif d in (7, 8):
        # several generalisation steps at once: drop a statement, _v_ for one identifier, ___ for every constant and
        # (d == 8) ___ for the last remaining plain-name argument as well
        if len(pat_tree.body) < 3:
            return True
        drop = p % len(pat_tree.body)
        pat_tree = ast.Module(body=[s for i, s in enumerate(pat_tree.body) if i != drop], type_ignores=[])
        ids = sorted({n.id for n in ast.walk(pat_tree) if isinstance(n, ast.Name) and n.id != "print"})
        old = ids[(p // 4) % len(ids)]
        if d == 8:
            loads = [n for n in ast.walk(pat_tree) if isinstance(n, ast.Name) and isinstance(n.ctx, ast.Load)
                     and n.id not in (old, "print")]
            if loads:
                pat_tree = _Replace(loads[-1], "___").visit(pat_tree)
        pat_tree = _Rename(old, "_v_").visit(pat_tree)
        want_var = old
        for k in [e for e in _exprs(pat_tree) if isinstance(e, ast.Constant)]:
            pat_tree = _Replace(k, "___").visit(pat_tree)
    elif d == 9:
        # drop a statement, _v_ for one identifier, EVERY other identifier consistently by its own placeholder, ___ for
        # every constant: statements that differ only in the identifiers they use become candidates for each other
        if len(pat_tree.body) < 3:
            return True
        drop = p % len(pat_tree.body)
        pat_tree = ast.Module(body=[s for i, s in enumerate(pat_tree.body) if i != drop], type_ignores=[])
        ids = sorted({n.id for n in ast.walk(pat_tree) if isinstance(n, ast.Name) and n.id not in ("print", "max")})
        old = ids[(p // 4) % len(ids)]
        pat_tree = _Rename(old, "_v_").visit(pat_tree)
        for i, other in enumerate(x for x in ids if x != old):
            pat_tree = _Rename(other, "_t%d_" % i).visit(pat_tree)
        want_var = old
        for k in [e for e in _exprs(pat_tree) if isinstance(e, ast.Constant)]:
            pat_tree = _Replace(k, "___").visit(pat_tree)
    ast.fix_missing_locations(pat_tree)
    pattern = ast.unparse(pat_tree)
    matches, tree = _match(pattern, code, pre_search)
    if not matches:
        return False
    if want_var is not None:
        ok = False
        for m in matches:
            bound = []
            for table in (m.symbol_table, m.func_table):      # a _v_ in call position is kept in the function table
                if "_v_" in table:
                    bound += [s.id for s in table["_v_"].my_list]
            if bound and all(b == want_var for b in bound):
                ok = True
        if not ok:
            return False
    if want_expr is not None:
        ok = False
        for m in matches:
            node = m.exp_table.get("__e__")
            if node is not None:
                a = node.astNode
                if isinstance(a, ast.Expr):        # a statement-level __e__ is bound to the expression statement
                    a = a.value
                if (type(a).__name__, getattr(a, "lineno", None), getattr(a, "col_offset", None)) == want_expr:
                    ok = True
        if not ok:
            return False
    return True


TEXT_PROGRAMS = [
    "total = 0\nfor x in xs:\n    total = total + x\nprint(total)\n",
    "def f(a):\n    \"\"\"Adds.\n    \n    Twice.\"\"\"\n    return a + a\nprint(f(1))\n",
    "text = \'\'\'first\n  \nlast\'\'\'\nprint(text)\n",
    "if x:\n    y = (1 +\n         2)\nelse:\n    y = 0\n",
    "values = [\n    1,\n    2,\n]\nprint(values)  # show\n",
    "\tif_tab = 1\n".lstrip("\t") + "while if_tab:\n\tif_tab = 0\n",
    "msg = 'a' 'b'\nprint(msg)\n",
    "x = 1; y = 2\nprint(x, y)\n",
]


def derive_text(k0: bool, k1: bool, k2: bool, p0: bool, p1: bool, p2: bool, twice: bool) -> bool:
    """
    Patterns cut from the program TEXT (not re-rendered): the whole file, or the source segment of one of its statements,
    handed to the public pedal.cait.find_matches(pattern) on a report holding that program - programs with multi-line
    strings containing whitespace-only lines, docstrings, continuation lines, comments, tabs, implicit string
    concatenation, `;`. At least one match each time (`twice`: asked a second time on the same report).

    pre: True
    post: _
    """
    if tick():
        return True
    code = TEXT_PROGRAMS[bits(k0, k1, k2)]
    p = bits(p0, p1, p2)
    twice = True if twice else False
    with NoTracing():
        from pedal.cait.cait_api import find_matches
        tree = ast.parse(code)
        stmts = [n for n in ast.walk(tree) if isinstance(n, ast.stmt)]
        if p == 0:
            pattern = code
        else:
            pattern = ast.get_source_segment(code, stmts[(p - 1) % len(stmts)])
            if pattern is None:
                return True
            import textwrap
            if pattern != textwrap.dedent(pattern) and "\n" in pattern:
                return True          # a nested compound statement's segment is not a program by itself
        try:
            ast.parse(pattern)
        except SyntaxError:
            return True
        r = Report()
        contextualize_report(code, report=r)
        for i in range(2 if twice else 1):
            if not find_matches(pattern, report=r):
                return False
        return True


def derive_reach(a0: bool, a1: bool, b0: bool, b1: bool) -> bool:
    """
    Reachability twin: REFUTED (the _v_ generalisation of `n1 = n2 + 1` matches and binds _v_).

    pre: True
    post: _
    """
    if tick():
        return True
    i1, i2 = bits(a0, a1), bits(b0, b1)
    if i1 >= 3 or i2 >= 3:
        return True
    code = "%s = %s + 1" % (NAMES[i1], NAMES[i2])
    matches, tree = _match("_v_ = %s + 1" % NAMES[i2] if i1 != i2 else "_v_ = _v_ + 1", code)
    return not matches
