"""C07 (output family) - assert_output / assert_not_output / assert_output_contains / assert_not_output_contains on a
sandbox whose (stubbed) program printed a SYMBOLIC text; exact_strings=True keeps the comparison symbolic-friendly."""
from engine.prelude import tick, flag, excluded, bits, PART
import pedal.assertions.runtime as R
from sandbox_common import stub_canary, state, fresh, stub_reached

QUIET = {"context": False, "assertion": False}     # message text is not the subject (formatting realises symbolic text)


def _chomp(t):
    if t and t[-1] == "\n":
        return t[:-1]
    return t


def output_exact(printed: str, expected: str, failed: bool) -> bool:
    """
    The program printed `printed` (and, if `failed`, then raised ValueError): with exact_strings=True,
    assert_output(sandbox, expected) is silent iff the program did not fail and its output minus one trailing newline
    equals `expected`; assert_not_output is its complement on a run that did not fail; *_contains likewise with `in`.

    pre: len(printed) <= 2 and len(expected) <= 2
    post: _
    """
    if tick():
        return True
    r, sb = fresh()
    state["term"], state["text"] = (1 if failed else 0), printed
    calls_before = state["calls"]
    try:
        sb.run()
    finally:
        state["term"] = 0
    if not stub_reached(calls_before):
        flag("stub_dead")
        return True
    out = _chomp(printed)
    if len(printed) >= 2 and printed[-2:] == "\n\r":
        return True                      # pedal's chomp also removes "\n\r"; not part of the property text
    same, inside = (out == expected), (expected in out)
    a = R.assert_output(sb, expected, exact_strings=True, report=r, **QUIET)
    c = R.assert_output_contains(sb, expected, exact_strings=True, report=r, **QUIET)
    if failed:
        return bool(a)                   # an errored execution never satisfies assert_output
    na = R.assert_not_output(sb, expected, exact_strings=True, report=r, **QUIET)
    nc = R.assert_not_output_contains(sb, expected, exact_strings=True, report=r, **QUIET)
    return (bool(a) == (not same) and bool(na) == same and bool(c) == (not inside) and bool(nc) == inside)


REGEXES = ["a", "^a", "a$", "a+b?", "[0-9]", r"\s", "", "a|b"]
TEXTS = ["", "a", "b", "ab", "ba", "aa", "7", " a", "a\n", "x"]


def regex_menu(g0: bool, g1: bool, g2: bool, t0: bool, t1: bool, t2: bool, t3: bool) -> bool:
    """
    assert_regex / assert_not_regex / assert_output_regex / assert_not_output_regex against re.search on a menu of 8
    patterns x 10 texts (regular expressions on symbolic text are out of CrossHair's reach).

    pre: True
    post: _
    """
    if tick():
        return True
    import re
    ti = bits(t0, t1, t2, t3)
    if ti >= len(TEXTS):
        return True
    rx, text = REGEXES[bits(g0, g1, g2)], TEXTS[ti]
    found = re.search(rx, text) is not None
    r, sb = fresh()
    state["term"], state["text"] = 0, text
    sb.run()
    out_found = re.search(rx, _chomp(text)) is not None
    p = R.assert_regex(rx, text, report=r, **QUIET)
    n = R.assert_not_regex(rx, text, report=r, **QUIET)
    po = R.assert_output_regex(rx, sb, report=r, **QUIET)
    no = R.assert_not_output_regex(rx, sb, report=r, **QUIET)
    return (bool(p) == (not found) and bool(n) == found and bool(po) == (not out_found) and bool(no) == out_found)
