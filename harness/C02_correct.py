"""C02 - a submission is marked correct exactly when no shown negative feedback fired.
Public API only: the core commands and Feedback(...), report.suppress, simple.resolve."""
from engine.prelude import tick, flag, excluded, bits, PART
from pedal.core.feedback import Feedback
from pedal.core.report import Report
from pedal.core.commands import set_correct, compliment, give_partial, explain, gently, guidance
from pedal.resolvers import simple

from resolver_common import COMPLIMENT

# (maker, category used for suppression bookkeeping)
MAKERS = [
    ("set_correct", lambda r, m, kw: set_correct(report=r, **kw), "complete"),
    ("compliment", lambda r, m, kw: compliment(m, report=r, **kw), "instructor"),
    ("give_partial", lambda r, m, kw: give_partial(0.5, report=r, **kw), "instructor"),
    ("explain", lambda r, m, kw: explain(m, report=r, **kw), "instructor"),
    ("gently", lambda r, m, kw: gently(m, report=r, **kw), "instructor"),
    ("runtime-fb", lambda r, m, kw: Feedback(label="rt", category="runtime", message=m, report=r, **kw), "runtime"),
    ("spec-ok", lambda r, m, kw: Feedback(label="ok", category="specification", message=m, correct=True, report=r, **kw), "specification"),
    ("syntax-bad", lambda r, m, kw: Feedback(label="syn", category="syntax", message=m, correct=False, report=r, **kw), "syntax"),
    # feedback that declares the submission correct but sorts BEFORE the mistakes
    ("top-ok", lambda r, m, kw: Feedback(label="top", category="instructor", priority="highest", message=m, correct=True, report=r, **kw), "instructor"),
    ("set_correct-first", lambda r, m, kw: set_correct(report=r, priority="highest", **kw), "complete"),
    ("style-bad", lambda r, m, kw: Feedback(label="sty", category="style", message=m, correct=False, report=r, **kw), "style"),
    # positive valence and an else_message, but it does not declare the submission correct (e.g. a partial-credit group)
    ("pos-else", lambda r, m, kw: Feedback(label="pe", category="specification", message=m, valence=1, else_message="all fine", report=r, **kw), "specification"),
]
NEGATIVE_CATS = ("syntax", "runtime", "algorithmic", "instructor", "specification")


def _run(idx, acts, mutes, msgs, sup_instr, sup_runtime, hide, unscored=(False, False, False)):
    r = Report()
    fbs = []
    for i, k in enumerate(idx):
        kw = {"activate": acts[i]}
        if mutes[i]:
            kw["muted"] = True
        if unscored[i]:
            kw["unscored"] = True
        fbs.append(MAKERS[k][1](r, msgs[i], kw))
    if sup_instr:
        r.suppress("instructor")
    if sup_runtime:
        r.suppress("Runtime")
    if hide:
        r.suppress("correct")
    final = simple.resolve(r)
    expected = True
    negative_visible = False
    for i, fb in enumerate(fbs):
        cat = MAKERS[idx[i]][2]
        suppressed = (sup_instr and cat == "instructor") or (sup_runtime and cat == "runtime")
        eligible = bool(fb) and not fb.muted and not suppressed and fb.kind != COMPLIMENT
        if eligible:
            flag("eligible")
            if not fb.correct:
                expected = False
                if cat in NEGATIVE_CATS:
                    negative_visible = True
    ok = (final.correct is expected and final.success is expected and final.to_json()["correct"] is expected)
    if negative_visible and final.correct:
        return False
    return ok


def correct2(k0a: bool, k0b: bool, k0c: bool, a0: bool, mu0: bool, m0: str,
             k1a: bool, k1b: bool, k1c: bool, k1d: bool, a1: bool, mu1: bool, m1: str,
             sup_instr: bool, sup_runtime: bool, hide: bool) -> bool:
    """
    Two feedback calls from the maker menu (first one fixed by the partition) in this order, each with symbolic
    activate / muted / message; optional suppress('instructor'), suppress('Runtime'), suppress('correct').

    pre: True
    post: _
    """
    if tick():
        return True
    k0 = int(PART) if PART else bits(k0a, k0b, k0c)
    k1 = bits(k1a, k1b, k1c, k1d)
    if k0 >= len(MAKERS) or k1 >= len(MAKERS):
        return True
    if excluded("C02.correct2", k0=k0, k1=k1, a0=a0, a1=a1, mu0=mu0, mu1=mu1, m0=m0, m1=m1):
        return True
    return _run([k0, k1], [a0, a1], [mu0, mu1], [m0, m1], sup_instr, sup_runtime, hide)


def correct3(k1a: bool, k1b: bool, k1c: bool, k2a: bool, k2b: bool, k2c: bool,
             a0: bool, a1: bool, a2: bool, mu0: bool, mu1: bool, mu2: bool, sup_instr: bool) -> bool:
    """
    Three feedback calls (first fixed by the partition), concrete messages.

    pre: True
    post: _
    """
    if tick():
        return True
    k0 = int(PART) if PART else 0
    return _run([k0, bits(k1a, k1b, k1c), bits(k2a, k2b, k2c)], [a0, a1, a2], [mu0, mu1, mu2],
                ["m0", "m1", "m2"], sup_instr, False, False)


def correct_unscored(k1a: bool, k1b: bool, k1c: bool, k1d: bool, a0: bool, a1: bool, mu0: bool, mu1: bool,
                     un0: bool, un1: bool, sup_instr: bool) -> bool:
    """
    `unscored=True` takes a feedback out of the SCORE, not out of the verdict: two feedback calls (first = partition) with
    symbolic activate / muted / unscored; a visible triggered mistake keeps the result incorrect whether or not it is scored.

    pre: True
    post: _
    """
    if tick():
        return True
    k0 = int(PART) if PART else 4
    k1 = bits(k1a, k1b, k1c, k1d)
    if k1 >= len(MAKERS):
        return True
    return _run([k0, k1], [a0, a1], [mu0, mu1], ["m0", "m1"], sup_instr, False, False, unscored=(un0, un1))


def _expected(fbs, cats, sup_cats, sup_labels):
    expected = True
    for fb, cat in zip(fbs, cats):
        suppressed = cat in sup_cats or fb.label in sup_labels
        if bool(fb) and not fb.muted and not suppressed and fb.kind != COMPLIMENT and not fb.correct:
            expected = False
    return expected


def correct_again(k1a: bool, k1b: bool, k1c: bool, k1d: bool, a0: bool, a1: bool, mu0: bool,
                  s0: bool, s1: bool, s2: bool) -> bool:
    """
    Histories on ONE report: two feedback calls (first = partition), resolve, then one change of what is visible -
    suppress(category of the first) / suppress(label=its label) / its muted flag flipped / one more triggered mistake /
    set_correct() added / nothing - and resolve AGAIN: each result is the verdict for the report's state at that moment.

    pre: True
    post: _
    """
    if tick():
        return True
    k0 = int(PART) if PART else 4
    k1, step = bits(k1a, k1b, k1c, k1d), bits(s0, s1, s2)
    if k1 >= len(MAKERS) or step >= 6:
        return True
    r = Report()
    kw0 = {"activate": a0}
    if mu0:
        kw0["muted"] = True
    fbs = [MAKERS[k0][1](r, "m0", kw0), MAKERS[k1][1](r, "m1", {"activate": a1})]
    cats = [MAKERS[k0][2], MAKERS[k1][2]]
    first = simple.resolve(r)
    if first.correct is not _expected(fbs, cats, (), ()):
        return False
    sup_cats, sup_labels = (), ()
    if step == 0:
        r.suppress(cats[0])
        sup_cats = (cats[0],)
    elif step == 1:
        r.suppress(label=fbs[0].label)
        sup_labels = (fbs[0].label,)
    elif step == 2:
        fbs[0].muted = not fbs[0].muted
    elif step == 3:
        fbs.append(gently("one more", report=r))
        cats.append("instructor")
    elif step == 4:
        fbs.append(set_correct(report=r))
        cats.append("complete")
    second = simple.resolve(r)
    want = _expected(fbs, cats, sup_cats, sup_labels)
    return second.correct is want and second.success is want


def correct_reach(a0: bool, a1: bool, mu1: bool) -> bool:
    """
    Reachability twin: REFUTED when set_correct() is outvoted by a triggered, visible gently().

    pre: True
    post: _
    """
    if tick():
        return True
    r = Report()
    set_correct(report=r, activate=a0)
    kw = {"muted": True} if mu1 else {}
    gently("hint", report=r, activate=a1, **kw)
    final = simple.resolve(r)
    return not (a0 and a1 and not mu1 and final.correct is False)


def correct_fields(x: int, y: int, sx: int, sy: int, by_category: bool, swap: bool) -> bool:
    """
    A triggered mistake with two fields and a suppression naming BOTH fields (by label, or by category + label; the two
    fields in either order): the mistake is hidden - and the submission correct - exactly when both fields match.

    pre: True
    post: _
    """
    if tick():
        return True
    r = Report()
    fb = Feedback(label="wrong_result", category="instructor", message="m", fields={"function": x, "case": y}, report=r)
    wanted = {"case": sy, "function": sx} if swap else {"function": sx, "case": sy}
    if by_category:
        r.suppress("instructor", "wrong_result", wanted)
    else:
        r.suppress(None, "wrong_result", wanted)
    final = simple.resolve(r)
    hidden = (x == sx and y == sy)
    return final.correct is hidden and (final.label == "wrong_result") == (not hidden)
