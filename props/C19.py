from engine.runner import Ob

F = "harness/C19_types.py"
EXPLANATION = (
    "CrossHair/z3 over pedal's real apply_binary_operation, get_pedal_type_from_value, is_subtype, normalize_type and the "
    "BinOp/Compare visitors (through tifa_analysis). (1) For each of the 12 binary operators (partition) every ordered pair "
    "from a 17-value grid of ints (incl. negative), floats, strings, lists and tuples is enumerated path by path by the "
    "solver; CPython evaluates the operator on the same operands; post: CPython TypeError => pedal ImpossibleType, and when "
    "pedal does not object its result is a Type that the pedal type of the real result value is a subtype of (this catches "
    "value-dependent cells such as int ** negative int). (2) The same for 12 binary operators + 6 comparisons through "
    "tifa_analysis('x = a / y = b / z = x op y') on an 8-value grid: issues['incompatible_types'] non-empty whenever CPython "
    "raises TypeError, type of z conforming otherwise. (3) Value typing with SYMBOLIC values (scalars, lists of int|str, "
    "nested tuples, dicts, nested lists; sets from a subset menu): the pedal type is a Type, a subtype of itself twice in a "
    "row, and a subtype of normalize_type(type(v)).as_type().")
FUNCTIONS = ["pedal.types.operations.apply_binary_operation + VALID_BINOP_TYPES", "pedal.types.normalize.get_pedal_type_from_value/normalize_type",
             "pedal.types.new_types.is_subtype/widest_type/TupleType/ListType/...", "pedal.tifa.tifa_visitor.visit_BinOp/visit_Compare/visit_Tuple", "pedal.tifa.tifa_analysis"]
BOUNDS = {"operators": "12 binary + 6 comparisons", "operands": "17-value grid (table obligations), 8-value grid (through tifa_analysis)",
          "values": "strings <= 2 chars, containers <= 2 elements, depth <= 2"}
OUTSIDE = ["expression trees deeper than two operators", "bool / None / dict / set operands of operators (the property lists int, float, str, list, tuple)",
           "unary operators", "over-reporting (pedal objecting where CPython succeeds) is not a violation of the property"]
ASSUMPTIONS = ["operand grids are finite menus enumerated by the solver (the reference side is CPython evaluating concrete operands)",
               "FeedbackFieldWrapper copy-safety shim"]


def obligations(tier):
    obs = []
    for k in range(12):
        obs.append(Ob("C19.binop", F, "binop", 200, part=str(k), what="operator (partition) x 17x17 operand grid: CPython TypeError => ImpossibleType; else result type conforms to the real result"))
    ks = range(18) if tier == "thorough" else (0, 2, 4, 6, 12, 16)
    for k in ks:
        obs.append(Ob("C19.tifa_glue", F, "tifa_glue", 300, part=str(k), what="the same through tifa_analysis (incompatible_types issue / type of z), operator = partition"))
    for f, w in [("value_scalar", "scalars"), ("value_list", "lists of int|str"), ("value_tuple", "tuples incl. nested and empty"),
                 ("value_dict", "dicts"), ("value_set", "sets incl. mixed element types"), ("value_nested", "nested lists")]:
        obs.append(Ob("C19." + f, F, f, 200, what="value typing (%s): a Type, subtype of itself twice in a row, conforms to the normalised Python type" % w))
    for k in (range(12) if tier == "thorough" else (0, 2, 4, 6)):
      for side in ("L", "R"):
        obs.append(Ob("C19.tifa_tree", F, "tifa_tree", 400, part="%d,%s" % (k, side), what="depth-2 trees z = (x op1 y) op2 w / x op2 (y op1 w) through tifa_analysis (op1 = partition): TypeError anywhere => incompatible_types; else type of z admits the value"))
    for part in ("0,0", "0,1", "1,0", "1,1"):
        obs.append(Ob("C19.container_tree", F, "container_tree", 300, part=part, what="depth-2 trees over container operands ([] / [1] / ['s'] / [1.5] / () / (1,) / int / str) with + and * (partition = op1, op2): concatenation from an empty container, repetition, mixes"))
    for k in ((1, 2, 5) if tier == "quick" else range(7)):
        obs.append(Ob("C19.tifa_chain", F, "tifa_chain", 300, part=str(k), what="chained comparison r = x op1 y op2 z (op1 = partition): a TypeError between ANY adjacent pair => incompatible_types; else the type of r admits the value"))
    for k in range(18):
        obs.append(Ob("C19.tifa_glue_empty", F, "tifa_glue_empty", 200, part=str(k), what="x op y through tifa_analysis with EMPTY operands ('', [], (), {}, 0) on either side (operator = partition)"))
    obs.append(Ob("C19.value_special", F, "value_special", 120, what="value typing of unusual legal values (NaN / inf / -0.0 / None / bool / tuple / frozenset keys, NaN elements, nested empty containers): a Type, subtype of itself and of a second query's result, conforms to the normalised Python type"))
    obs.append(Ob("C19.numeric_twins", F, "numeric_twins", 120, what="an int and the float equal to it typed in the same process, both orders: each keeps the type of its own Python type; 1 << 1.0 and 'ab' * 1.0 still impossible"))
    obs.append(Ob("C19.binop_reach", F, "binop_reach", 60, expect="refute", what="twin: a TypeError cell is reached and reported"))
    return obs
