from engine.runner import Ob

F = "harness/C15_io.py"
EXPLANATION = (
    "Bounded symbolic execution (CrossHair/z3) of pedal's real output/input bookkeeping. (1) Sandbox.append_output "
    "is run from an ARBITRARY accumulated state (symbolic raw_output, existing line list) with a symbolic new text "
    "over all unicode: one inductive step, so it covers histories of any length for the raw/line views. (2) The "
    "real run()/call()/evaluate()/clear_output() are driven in sequences of 2-3 operations with `exec` replaced by a "
    "stub that writes a symbolic string to sys.stdout. (3) The real set_input/clear_input and the input tracker "
    "returned by _track_inputs are run on symbolic queues and read counts. Oracles are written from the property "
    "text (own character loop for the line view). 'Confirmed over all paths' = every feasible path explored and "
    "the negated post-condition unsat on each; every counterexample is replayed natively before it is reported.")
FUNCTIONS = ["pedal.sandbox.sandbox.Sandbox.append_output", "Sandbox.clear_output", "Sandbox._execute",
             "Sandbox._start_mocking/_stop_mocking", "Sandbox.run/call/evaluate", "Sandbox.set_input",
             "Sandbox.clear_input", "Sandbox._track_inputs"]
BOUNDS = {
    "quick": {"append_step": "prev_raw<=2 chars, new<=3 chars (all unicode), 0..2 existing lines",
              "history": "2 operations (all 15 non-trivial ordered pairs), printed text <=1 char each (all unicode)", "input": "queue<=2, extra<=1, reads<=4, items<=1 char"},
    "thorough": {"append_step": "same", "history": "2 and 3 operations (all ordered tuples ending in an execution), printed text <=1 char each", "input": "queue<=3, extra<=1, reads<=5"},
}
OUTSIDE = ["what a given program prints (exec is stubbed: the stream content is the symbolic variable)",
           "callable input sources (set_input(function))", "threaded execution", "texts longer than the bounds"]
ASSUMPTIONS = ["exec stub: student code = arbitrary string written to sys.stdout, then normal return",
               "Sandbox built with __new__ for the single-step and input obligations (only the fields the step touches)",
               "FeedbackFieldWrapper copy-safety shim in the harness process",
               "Sandbox._start_patches/_stop_patches executed untraced (concrete mock.patch bookkeeping, no symbolic data)",
               "sandbox.result_proxy_class = None in history obligations (results are not the subject; the proxy class defeats tracing)"]

CANARIES = {'harness/C15_io.py': 'stub_canary()'}   # harness file -> native call that must return True, else its stubs are dead


def obligations(tier):
    obs = [
        Ob("C15.append_step", F, "append_step", 120, what="raw_output == old+new, context.output == new, line view == old_lines + L(new)"),
        Ob("C15.append_step_reach", F, "append_step_reach", 60, expect="refute", what="twin: a 2-line text with trailing blank is recorded"),
        Ob("C15.history_reach", F, "history_reach", 120, expect="refute", part="0,1", what="twin: printing run followed by a silent call"),
        Ob("C15.input_fifo", F, "input_fifo", 300, what="FIFO, consume-once, '0' when empty, prompt echoed, per-context record"),
        Ob("C15.input_handback", F, "input_handback", 200, what="set_input(<the live queue itself>) keeps the remaining values; a list can be queued again after an input function was installed; then FIFO and the default"),
        Ob("C15.stderr_history", F, "stderr_history", 200, part="0,1", what="programs that also write to standard error: raw output, per-execution records and line view hold exactly the standard-output text"),
        Ob("C15.stderr_history", F, "stderr_history", 200, part="1,2", what="programs that also write to standard error: raw output, per-execution records and line view hold exactly the standard-output text"),
        Ob("C15.stderr_history", F, "stderr_history", 200, part="2,0", what="programs that also write to standard error: raw output, per-execution records and line view hold exactly the standard-output text"),
        Ob("C15.input_reference", F, "input_reference", 200, part="0,1", what="a stored reference to the input function used by a later execution: FIFO values, each execution's record holds exactly its own reads"),
        Ob("C15.input_reference", F, "input_reference", 200, part="0,2", what="a stored reference to the input function used by a later execution: FIFO values, each execution's record holds exactly its own reads"),
        Ob("C15.input_reference", F, "input_reference", 200, part="1,0", what="a stored reference to the input function used by a later execution: FIFO values, each execution's record holds exactly its own reads"),
        Ob("C15.input_clear", F, "input_clear", 60, what="clear_input empties the queue"),
    ]
    what2 = "ops (0 run,1 call,2 evaluate,3 clear_output) fixed by the partition, texts symbolic: raw = concat since clear; each context holds its share; silent executions add no line; sys.stdout restored"
    for i in range(4):
        for j in range(4):
            if i == 3 and j == 3:
                continue
            obs.append(Ob("C15.history2", F, "history2", 150, part="%d,%d" % (i, j), what=what2))
    for e in range(2):
        for k in range(3):
            obs.append(Ob("C15.input_entry", F, "input_entry", 200, part="%d,%d" % (e, k),
                          what="leftover queue then run/call(inputs=omitted|list|str): the given inputs REPLACE the queue (also when empty), FIFO, default '0', prompts echoed to the captured stream"))
    obs.append(Ob("C15.real_stream", F, "real_stream", 200, what="two executions printing texts with CR / CRLF / tabs / no newline through the REAL StringIO (CrossHair's stream model is bypassed): raw output, per-context share and line view exact"))
    if tier == "thorough":
        for i in range(4):
            for j in range(4):
                for k in range(3):
                    obs.append(Ob("C15.history3", F, "history3", 600, part="%d,%d,%d" % (i, j, k), what=what2))
    return obs
