import z3

from engine.runner import Ob, ZOb
from engine import smt
from engine.smt import Interp, OptStr, SymObj, solve, model_optstr

F = "harness/C03_score.py"
EXPLANATION = (
    "(E2) pedal.core.scoring.Score.add_to_current is translated from its AST into a z3 term over a real `current`, real "
    "`value`, Optional[String] operator and Bool invert; queries (must be unsat) assert that a non-inverted ''/None/'+' "
    "operator adds, '-' subtracts and an inverted score leaves the total unchanged (over the reals). (E1) CrossHair runs "
    "Feedback(...score, valence, muted, unscored...), report.suppress and simple.resolve for 2-3 feedbacks: the eight-row "
    "valence x trigger table, muted-still-scores, unscored/suppressed-do-not, 'N%' = N/100, '-' subtracts; oracle = exact "
    "Fraction sum by the table in the property text, rounded to 2 decimals, or 1 for the default all-correct result; "
    "resolved_score carries the inversion mark exactly when the row does not apply.")
FUNCTIONS = ["pedal.core.scoring.Score.add_to_current", "Score.parse", "combine_scores", "FinalFeedback.merge/finalize",
             "pedal.resolvers.simple.resolve", "Feedback.__init__", "Report.suppress"]
BOUNDS = {"quick": {"S1": "N=2, 8 score literals x 4 valences (incl. unset) x triggered", "S2": "N=2, muted/unscored/suppressed/valence/triggered, 2 literal pairs"},
          "thorough": {"S1,S2": "as quick", "S3": "N=3 for 12 literal triples"}}
OUTSIDE = ["score magnitudes as symbolic floats (string formatting realises them; literals come from a menu covering every documented form)",
           "'*', '/', '=', '^' forms (documented as plans)", "unit_test partial-credit splitting", "suppress('correct') (changes what 'default result' means)",
           "float rounding inside add_to_current (E2 is over the reals)"]
ASSUMPTIONS = ["menu literals have <= 2 decimals so the exact sum has no rounding tie", "FeedbackFieldWrapper copy-safety shim"]


def smt_add_to_current():
    from pedal.core.scoring import Score
    I = Interp()
    cur, val, inv = z3.Real("current"), z3.Real("value"), z3.Bool("invert")
    op = OptStr.fresh("operator")
    me = SymObj({"operator": op, "value": val, "invert": inv})
    out = I.call(Score.add_to_current, [me, cur])
    # translator validation against the real method
    for o, i_, v, c in [("+", False, 0.25, 1.0), (None, False, 0.5, 0.0), ("-", False, 0.1, 1.0), ("-", True, 0.1, 1.0),
                        ("+", True, 0.3, 0.2), ("", False, 2.0, 1.0), ("*", False, 2.0, 3.0)]:
        real = Score(i_, o, v, False, "").add_to_current(c)
        got = z3.simplify(z3.substitute(out, (op.is_none, z3.BoolVal(o is None)), (op.s, z3.StringVal(o or "")),
                                        (inv, z3.BoolVal(i_)), (val, z3.RealVal(repr(v))), (cur, z3.RealVal(repr(c)))))
        if abs(float(got.as_fraction()) - real) > 1e-9:
            return {"status": "unsupported", "detail": "translator disagrees on %r" % ((o, i_, v, c),)}
    plus = z3.Or(op.is_none, op.s == "", op.s == "+")
    minus = z3.And(z3.Not(op.is_none), op.s == "-")
    cells = [("plus adds", [plus, z3.Not(inv), out != cur + val]),
             ("minus subtracts", [minus, z3.Not(inv), out != cur - val]),
             ("inverted +/- is a no-op", [z3.Or(plus, minus), inv, out != cur])]
    q, secs = 0, 0.0
    for name, cs in cells:
        r = solve(cs)
        q += 1
        secs += r["seconds"]
        if r["status"] == "sat":
            m = r["model"]
            o = model_optstr(m, op)
            args = (z3.is_true(m.eval(inv, model_completion=True)), o,
                    float(m.eval(val, model_completion=True).as_fraction()), float(m.eval(cur, model_completion=True).as_fraction()))
            real = Score(args[0], args[1], args[2], False, "").add_to_current(args[3])
            exp = {"plus adds": args[3] + args[2], "minus subtracts": args[3] - args[2]}.get(name, args[3])
            return {"status": "sat", "queries": q, "seconds": secs, "replayed": abs(real - exp) > 1e-9,
                    "model_text": "%s violated: invert=%s operator=%r value=%s current=%s -> %s" % ((name,) + args + (real,))}
        if r["status"] != "unsat":
            return {"status": "unknown", "queries": q, "seconds": secs, "detail": r.get("detail")}
    return {"status": "unsat", "queries": q, "seconds": round(secs, 3)}


def smt_obligations(tier):
    return [ZOb("C03.smt_add_to_current", smt_add_to_current, "Score.add_to_current: + adds, - subtracts, inverted is a no-op, for all real current/value")]


def obligations(tier):
    w = "final.score == round(sum over unsuppressed, not-unscored feedback of (triggered & non-negative) or (untriggered & negative) ? signed score : 0, 2); 1 for the default result; resolved_score inversion mark matches"
    obs = [Ob("C03.score2", F, "score2", 300, part=str(s), what=w) for s in range(8)]
    for part in ("0,0", "0,1", "1,0", "1,1"):
        obs.append(Ob("C03.flags2", F, "flags2", 400, part=part, what=w + " (muted still scores; unscored / suppressed do not)"))
    obs.append(Ob("C03.percent_forms", F, "percent_forms", 120, what="fractional percents: n copies of +2.5% / 12.5% / -0.5% / +33% / +0.25 / +100% sum exactly (N% == N/100)"))
    obs.append(Ob("C03.numeric_magnitudes", F, "numeric_magnitudes", 200, what="numeric scores of any magnitude (1e-05 ... 1e16, rendered by Python in exponent notation) are summed at their value"))
    obs.append(Ob("C03.else_scores", F, "else_scores", 200, what="else_message changes what is shown, not what is scored (valence / triggered / else_message / muted / unscored symbolic)"))
    obs.append(Ob("C03.label_suppress", F, "label_suppress", 300, what="suppression by label (label-only and category+label, mixed-case labels): exactly the feedback carrying that label stops scoring"))
    obs.append(Ob("C03.score_reach", F, "score_reach", 60, expect="refute", what="twin: untriggered negative awards next to a triggered one"))
    if tier == "thorough":
        for trip in ["1,5,3", "3,6,7", "2,4,0", "5,5,1", "7,3,6", "0,1,5", "4,4,4", "6,2,3", "1,1,1", "3,5,2", "7,0,6", "2,6,4"]:
            obs.append(Ob("C03.score3", F, "score3", 900, part=trip, what=w + " (N=3)"))
    return obs
