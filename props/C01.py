import z3

from engine.runner import Ob, ZOb
from engine import smt
from engine.smt import Interp, OptStr, SymObj, ascii_only, ci_re, solve, model_optstr

F = "harness/C01_resolve.py"
EXPLANATION = (
    "Two solver-based layers over the real code. (E2) pedal.resolvers.simple.by_priority/priority_offset are "
    "translated from their AST (as found in /repo at run time, with the real DEFAULT_CATEGORY_PRIORITY and ALIASES "
    "tables read from the imported modules) into one z3 term over Optional[String] category/priority; for every "
    "documented (category class x priority class) cell one query asserts key != documented rank and must be unsat "
    "-- this covers ALL ASCII strings in any letter case. (E1) CrossHair executes Feedback(...), report.suppress(...), "
    "simple.resolve / full.resolve symbolically: menus (category, priority, kind, flags, suppression forms) are "
    "enumerated path by path, labels / messages / field values / suppression arguments are symbolic; the oracle is the "
    "eligibility predicate and min((rank, creation index)) of the property text. 'Confirmed over all paths' per "
    "obligation; every counterexample replayed natively.")
FUNCTIONS = ["pedal.resolvers.simple.by_priority", "pedal.resolvers.simple.priority_offset", "pedal.resolvers.simple.resolve",
             "pedal.resolvers.full.resolve", "pedal.core.final_feedback.FinalFeedback.merge/finalize",
             "pedal.core.report.Report.suppress", "pedal.core.feedback.Feedback.__init__/_handle_condition"]
BOUNDS = {
    "quick": {"rank table": "all ASCII category/priority strings, any case (E2)",
              "ordering": "N=2 feedbacks, 6 categories x 8 priorities (incl. highest, lowest, aliases) x activate each, symbolic messages",
              "flags": "N=2, activate/muted/kind(3)/else_message each, simple and full resolver",
              "suppression": "1 or 2 suppress() calls of the 5 forms (all 5 single forms + 10 ordered pairs), feedback label {a, Ab}, suppress labels {equal, different, case-variant, mixed-case equal}, one or two symbolic int fields, category spellings {case variant, alias, unrelated}",
              "ties": "N=3 equal keys"},
    "thorough": {"as quick plus": "N=3 ordering (3x3 reduced menus), all 25 ordered suppression form pairs"},
}
OUTSIDE = ["N > 3 feedbacks (argued from stable sort + first-eligible-wins, which the N<=3 slices establish for every relative position)",
           "non-ASCII category/priority strings (str.lower special cases)", "sectional resolver", "feedback pools (random.choice)",
           "labels differing only in letter case between suppress() and the feedback (not settled by the property text)",
           "offset of an undocumented priority word (only checked to stay inside its rank)"]
ASSUMPTIONS = ["documented rank list transcribed from docsrc/developers/ffs.rst into the checker",
               "FeedbackFieldWrapper copy-safety shim in the harness process",
               "E2: ASCII strings; z3 string/regex theory; translator validated per run against the real function"]

RANK = ["highest", "syntax", "mistakes", "instructor", "algorithmic", "runtime", "student",
        "specification", "positive", "instructions", "uncategorized", "lowest"]
ALIAS = {"parser": "syntax", "verifier": "syntax", "instructor": "instructor", "analyzer": "algorithmic"}


class _F:
    def __init__(self, c, p):
        self.category, self.priority = c, p


def _ref(c, p):
    cc = c.lower() if c is not None else "uncategorized"
    v = RANK.index(cc) if cc in RANK else len(RANK)
    pp = "medium"
    if p is not None:
        pp = ALIAS.get(p.lower(), p.lower())
    if pp in RANK:
        v, pp = RANK.index(pp), "medium"
    return v * 10 + {"low": 7, "medium": 5, "high": 3}.get(pp)


def _translate():
    from pedal.resolvers import simple
    I = Interp()
    cat, pr = OptStr.fresh("cat"), OptStr.fresh("pr")
    key = I.call(simple.by_priority, [SymObj({"category": cat, "priority": pr})])
    return I, cat, pr, key, simple


def smt_rank_table():
    I, cat, pr, key, simple = _translate()
    key10 = z3.simplify(smt.to_real(key) * 10)
    base = [ascii_only(cat.s), ascii_only(pr.s)]
    # translator validation: concrete inputs (from pedal's tests and docs) through real function and term
    samples = [("runtime", None), (None, "Parser"), ("zzz", "low"), ("Syntax", "HIGH"), ("student", "weird"),
               ("instructor", "student"), (None, None), ("complete", None), ("SYSTEM", "lowest"), ("positive", "highest")]
    for c, p in samples:
        sub = [(cat.is_none, z3.BoolVal(c is None)), (cat.s, z3.StringVal(c or "")),
               (pr.is_none, z3.BoolVal(p is None)), (pr.s, z3.StringVal(p or ""))]
        got = z3.simplify(z3.substitute(key10, *sub))
        real = simple.by_priority(_F(c, p)) * 10
        if abs(float(got.as_fraction()) - real) > 1e-9:
            return {"status": "unsupported", "detail": "translator disagrees with real by_priority on %r: %s vs %s" % ((c, p), got, real)}
    # classes
    cat_classes = [("None", [cat.is_none], None)]
    for name in RANK:
        cat_classes.append((name, [z3.Not(cat.is_none), z3.InRe(cat.s, ci_re(name))], name))
    cat_classes.append(("<other>", [z3.Not(cat.is_none)] + [z3.Not(z3.InRe(cat.s, ci_re(n))) for n in RANK], "zz-other"))
    pr_classes = [("None", [pr.is_none], None)]
    for name in ["low", "medium", "high"] + RANK + [a for a in ALIAS if a not in RANK]:
        pr_classes.append((name, [z3.Not(pr.is_none), z3.InRe(pr.s, ci_re(name))], name))
    known_prios = ["low", "medium", "high"] + RANK + list(ALIAS)
    q = 0
    secs = 0.0
    for cn, cc, cex in cat_classes:
        for pn, pc, pex in pr_classes:
            expected = _ref(cex, pex)
            r = solve(base + cc + pc + [key10 != expected])
            q += 1
            secs += r["seconds"]
            if r["status"] == "sat":
                m = r["model"]
                c, p = model_optstr(m, cat), model_optstr(m, pr)
                real = simple.by_priority(_F(c, p)) * 10
                return {"status": "sat", "queries": q, "seconds": secs, "replayed": abs(real - expected) > 1e-9,
                        "model_text": "category=%r priority=%r: by_priority*10=%s, documented rank key=%s" % (c, p, real, expected)}
            if r["status"] != "unsat":
                return {"status": "unknown", "queries": q, "seconds": secs, "detail": "cell %s/%s: %s" % (cn, pn, r.get("detail"))}
        # undocumented priority words never leave the category's rank
        v = (_ref(cex, None) - 5)
        other = [z3.Not(pr.is_none)] + [z3.Not(z3.InRe(pr.s, ci_re(n))) for n in known_prios]
        r = solve(base + cc + other + [z3.Or(key10 <= v, key10 >= v + 10)])
        q += 1
        secs += r["seconds"]
        if r["status"] == "sat":
            m = r["model"]
            c, p = model_optstr(m, cat), model_optstr(m, pr)
            real = simple.by_priority(_F(c, p)) * 10
            return {"status": "sat", "queries": q, "seconds": secs, "replayed": not (v < real < v + 10),
                    "model_text": "category=%r priority=%r: key %s leaves rank [%s,%s)" % (c, p, real, v, v + 10)}
        if r["status"] != "unsat":
            return {"status": "unknown", "queries": q, "seconds": secs, "detail": r.get("detail")}
    return {"status": "unsat", "queries": q, "seconds": round(secs, 3),
            "detail": "functions: %s; %d AST nodes" % (I.stats["functions"], I.stats["nodes"])}


def smt_rank_reach():
    """Vacuity guard for the encoding: a key of 5.3 (runtime, high) is reachable."""
    I, cat, pr, key, simple = _translate()
    r = solve([ascii_only(cat.s), ascii_only(pr.s), smt.to_real(key) * 10 == 53])
    if r["status"] == "sat":
        r["model_text"] = "category=%r priority=%r" % (model_optstr(r["model"], cat), model_optstr(r["model"], pr))
        del r["model"]
    return r


def smt_obligations(tier):
    return [ZOb("C01.smt_rank_table", smt_rank_table, "10*by_priority(category, priority) == documented rank key for every ASCII string pair (13 category classes x 19 priority classes, case-insensitive) ; undocumented priority words stay inside the rank"),
            ZOb("C01.smt_rank_reach", smt_rank_reach, "twin: key 5.3 is reachable in the encoding", expect="sat")]


FORMS = 5


def obligations(tier):
    obs = []
    w = "winner = min((documented key, creation index)) over activated feedback; title/message/label/category/used from the winner; default result iff none"
    if tier == "quick":
        for c0 in range(6):
            for p0 in (0, 3, 6):
                obs.append(Ob("C01.order2", F, "order2", 200, part="%d,%d" % (c0, p0), what=w))
    else:
        for c0 in range(6):
            for p0 in range(8):
                obs.append(Ob("C01.order2", F, "order2", 400, part="%d,%d" % (c0, p0), what=w))
        for c0 in range(3):
            for p0 in range(3):
                obs.append(Ob("C01.order3", F, "order3", 900, part="%d,%d" % (c0, p0), what=w + " (N=3)"))
    obs.append(Ob("C01.order_reach", F, "order_reach", 60, expect="refute", what="twin: the later feedback wins on rank"))
    obs.append(Ob("C01.flags2", F, "flags2", 400, what="eligible = activated, not muted, not Compliment; else_message of an untriggered feedback never takes the slot; full.used holds every eligible and nothing muted/untriggered-without-else"))
    ws = "f0 is shown iff no suppress() call hits it (category alias/case-insensitive; label; label + all fields equal); suppressed feedback never in full.used"
    pairs = [(i,) for i in range(FORMS)]
    if tier == "quick":
        pairs += [(1, 2), (2, 1), (4, 2), (3, 1), (0, 3), (3, 4), (1, 1), (2, 3), (4, 4), (3, 3)]
    else:
        pairs += [(i, j) for i in range(FORMS) for j in range(FORMS)]
    for pr_ in pairs:
        obs.append(Ob("C01.suppress2", F, "suppress2", 300 if tier == "quick" else 900,
                      part=",".join(map(str, pr_)), what=ws))
        if tier != "quick" or len(pr_) == 1 or pr_ in [(1, 2), (4, 2)]:
            obs.append(Ob("C01.suppress2", F, "suppress2", 300 if tier == "quick" else 900,
                          part=",".join(map(str, pr_)) + ",F", what=ws + " (full resolver)"))
    obs.append(Ob("C01.suppress_reach", F, "suppress_reach", 60, expect="refute", what="twin: a category+label+fields suppression matches"))
    obs.append(Ob("C01.ties3", F, "ties3", 200, what="equal keys: first eligible in creation order wins"))
    obs.append(Ob("C01.rank_rows", F, "rank_rows", 300, what="every pair of rows of the documented rank table through resolve()"))
    return obs
