from engine.runner import Ob

F = "harness/C02_correct.py"
EXPLANATION = (
    "CrossHair/z3 symbolic execution of the real core commands (set_correct, compliment, give_partial, explain, gently), "
    "Feedback(...), report.suppress and simple.resolve. Each obligation creates 2 (quick) or 3 (thorough) feedbacks from an "
    "12-entry constructor menu (incl. correct=True feedback that sorts before the mistakes) in creation order with symbolic activate / muted flags, symbolic (unbounded) message strings and "
    "symbolic suppress('instructor') / suppress('Runtime') / suppress('correct') switches. Oracle from the property text: "
    "final.correct == final.success == to_json()['correct'] == all(bool(f.correct) for triggered, unmuted, unsuppressed, "
    "non-compliment f), and never correct while such a feedback of category syntax/runtime/algorithmic/instructor/specification "
    "with falsy correct exists. Verdict per obligation: 'Confirmed over all paths' or a natively replayed counterexample.")
FUNCTIONS = ["pedal.core.commands.set_correct/compliment/give_partial/explain/gently", "pedal.core.feedback.Feedback.__init__",
             "pedal.core.report.Report.suppress", "pedal.resolvers.simple.resolve", "FinalFeedback.merge/finalize/to_json"]
BOUNDS = {"quick": {"feedbacks": "N=2 from 12 constructors (all 144 ordered pairs), flags and 3 suppress switches symbolic, messages unbounded symbolic strings"},
          "thorough": {"feedbacks": "N=2 as quick plus N=3 (all 512 ordered triples) with concrete messages and suppress('instructor')"}}
OUTSIDE = ["N > 3", "assert_* feedback classes as makers (their 'correct' attribute is the Feedback default; covered by the generic Feedback makers)", "sectional/full resolvers"]
ASSUMPTIONS = ["FeedbackFieldWrapper copy-safety shim in the harness process"]


def obligations(tier):
    w = "final.correct == success == to_json()['correct'] == AND of f.correct over eligible feedback; never correct with a visible triggered negative"
    obs = [Ob("C02.correct2", F, "correct2", 300, part=str(k), what=w) for k in range(12)]
    obs.append(Ob("C02.correct_fields", F, "correct_fields", 120, what="a suppression naming two fields hides the mistake (and makes the result correct) exactly when both fields match; symbolic int field values"))
    for k in ((4, 5, 7) if tier == "quick" else (3, 4, 5, 7, 10)):
        obs.append(Ob("C02.correct_unscored", F, "correct_unscored", 300, part=str(k), what="unscored=True removes a feedback from the score, not from the verdict: a visible triggered mistake keeps the result incorrect (first maker = partition; activate / muted / unscored symbolic)"))
    for k in ((0, 4, 7) if tier == "quick" else range(12)):
        obs.append(Ob("C02.correct_again", F, "correct_again", 300, part=str(k), what="history on one report: resolve, then suppress(category) / suppress(label=) / flip muted / add a mistake / add set_correct / nothing, resolve again - each verdict is the one for the report's state at that moment"))
    obs.append(Ob("C02.correct_reach", F, "correct_reach", 60, expect="refute", what="twin: set_correct() outvoted by a visible gently()"))
    if tier == "thorough":
        obs += [Ob("C02.correct3", F, "correct3", 900, part=str(k), what=w + " (N=3)") for k in range(8)]
    return obs
