import ast

import z3

from engine.runner import Ob, ZOb
from engine import smt
from engine.smt import Interp, SymObj, solve

F = "harness/C08_static.py"
EXPLANATION = (
    "(E2a) EnsureAssertionFeedback._check_usage and PreventAssertionFeedback._check_usage are translated from their AST into "
    "z3 terms over symbolic integers use_count >= 0 and at_least/at_most >= 0 (f-string message text is opaque); the queries "
    "'ensure fires <=> use_count < at_least' and 'prevent fires <=> use_count > at_most' must be unsat-negated: all thresholds. "
    "(E2b) pedal's symbol -> node-class tables (read from the imported module) are compared with the classes CPython's own "
    "parser produces for `a <sym> b` / `<sym> a` as two z3 functions over the finite symbol sort; the solver returns any "
    "offending row. (E1) CrossHair runs the real find_function_calls / find_operation and the ensure_*/prevent_* classes "
    "(function_call, operation, literal, literal_type, ast, import) with root= a tree whose leaves are SYMBOLIC (identifier "
    "strings; constants typed int|float|bool|str) or a program assembled from operator/statement menus incl. chained "
    "comparisons and nested operators; the oracle counts by a plain ast.walk with `type(v) is type(q) and v == q`; "
    "fires <=> threshold relation; the reported line is a line of a counted node; find_* return exactly the counted nodes.")
FUNCTIONS = ["pedal.assertions.static.EnsureAssertionFeedback._check_usage", "PreventAssertionFeedback._check_usage",
             "ensure_/prevent_ function_call, operation, literal, literal_type, ast, import (.condition)", "pedal.cait.find_node.find_operation/find_function_calls",
             "pedal.utilities.operators tables", "pedal.cait.cait_node.CaitNode.find_all", "pedal.cait.stretchy_tree_matching (literal patterns)"]
BOUNDS = {"thresholds": "all integers >= 0 (E2); 0..3 through the public classes (counts are formatted into the message)",
          "names": "4 call sites with symbolic names <= 2 chars; queried name from a 3-entry menu",
          "operators": "all 10 comparison symbols x pairs x chained/unchained; 13 binary x nested/flat; not, ~, and, or",
          "literals": "2 symbolic constants of type int|float|bool|str (strings <= 1 char) against 9 queried literals",
          "node kinds / imports": "pairs from 8 statements x 10 node kinds x 3 module names"}
OUTSIDE = ["programs beyond the listed shapes", "negative thresholds", "None / tuple / bytes literals", "queried names / literals as unbounded symbolic values (they are formatted into messages or rendered to patterns)"]
ASSUMPTIONS = ["trees with symbolic leaves are built with ast constructors (what the parser would produce for such a program)",
               "FeedbackFieldWrapper copy-safety shim"]


def smt_thresholds():
    import pedal.assertions.static as S
    q, secs = 0, 0.0
    for cls, fld, cmp_name in ((S.EnsureAssertionFeedback, "at_least", "ensure"), (S.PreventAssertionFeedback, "at_most", "prevent")):
        I = Interp()
        n, th = z3.Int("use_count"), z3.Int(fld)
        fields = SymObj(items={fld: th}, name="fields")
        me = SymObj(attrs={"fields": fields})
        uses = SymObj(attrs={"__len__": n})
        out = I.call(cls._check_usage, [me, "use_count", uses])
        out = I.truth(out)
        want = (n < th) if cmp_name == "ensure" else (n > th)
        # validate the translation on concrete values through the real method
        class _Fake:
            pass
        for cn, ct in [(0, 0), (0, 1), (1, 1), (2, 1), (1, 2), (3, 0), (5, 5)]:
            fake = _Fake()
            fake.fields = {fld: ct}
            real = bool(cls._check_usage(fake, "use_count", [None] * cn))
            got = z3.is_true(z3.simplify(z3.substitute(out, (n, z3.IntVal(cn)), (th, z3.IntVal(ct)))))
            if real != got:
                return {"status": "unsupported", "detail": "translator disagrees with %s._check_usage at %r" % (cls.__name__, (cn, ct))}
        r = solve([n >= 0, th >= 0, out != want])
        q += 1
        secs += r["seconds"]
        if r["status"] == "sat":
            cn, ct = r["model"].eval(n, model_completion=True).as_long(), r["model"].eval(th, model_completion=True).as_long()
            fake = _Fake()
            fake.fields = {fld: ct}
            real = bool(cls._check_usage(fake, "use_count", [None] * cn))
            exp = (cn < ct) if cmp_name == "ensure" else (cn > ct)
            return {"status": "sat", "queries": q, "seconds": secs, "replayed": real != exp,
                    "model_text": "%s: use_count=%d %s=%d fires=%s" % (cmp_name, cn, fld, ct, real)}
        if r["status"] != "unsat":
            return {"status": "unknown", "queries": q, "detail": r.get("detail")}
    return {"status": "unsat", "queries": q, "seconds": round(secs, 3)}


def smt_tables():
    import pedal.utilities.operators as O
    rows = []
    for table, kind in ((O.COMPARE_OP_NAMES, "cmp"), (O.BOOL_OP_NAMES, "bool"), (O.BIN_OP_NAMES, "bin"), (O.UNARY_OP_NAMES, "un")):
        for sym, name in table.items():
            src = ("%s a" % sym) if kind == "un" else ("a %s b" % sym)
            node = ast.parse(src, mode="eval").body
            if kind == "cmp":
                ref = type(node.ops[0]).__name__
            else:
                ref = type(node.op).__name__
            rows.append((sym, name, ref))
    names = sorted({r[1] for r in rows} | {r[2] for r in rows})
    Sym, syms = z3.EnumSort("Sym", ["s%d" % i for i in range(len(rows))])
    Cls, clss = z3.EnumSort("Cls", ["c_" + n for n in names])
    idx = {n: clss[i] for i, n in enumerate(names)}
    pedal_f, ref_f = z3.Function("pedal", Sym, Cls), z3.Function("cpython", Sym, Cls)
    cs = []
    for i, (sym, name, ref) in enumerate(rows):
        cs += [pedal_f(syms[i]) == idx[name], ref_f(syms[i]) == idx[ref]]
    x = z3.Const("x", Sym)
    r = solve(cs + [pedal_f(x) != ref_f(x)])
    if r["status"] == "sat":
        i = int(str(r["model"].eval(x))[1:])
        sym, name, ref = rows[i]
        return {"status": "sat", "queries": 1, "seconds": r["seconds"], "replayed": name != ref,
                "model_text": "symbol %r: pedal table says %s, CPython's parser produces %s" % (sym, name, ref)}
    return {"status": r["status"], "queries": 1, "seconds": r["seconds"], "detail": "%d rows" % len(rows)}


def smt_obligations(tier):
    return [ZOb("C08.smt_thresholds", smt_thresholds, "ensure fires <=> use_count < at_least; prevent fires <=> use_count > at_most; all integers >= 0"),
            ZOb("C08.smt_tables", smt_tables, "symbol -> node class tables equal CPython's parser output for every documented symbol")]


def obligations(tier):
    obs = []
    for t in (0, 1, 2, 3):
        obs.append(Ob("C08.calls", F, "calls", 200, part=str(t), what="function/method calls with symbolic names: find_function_calls exact; ensure fires iff count < t; prevent fires iff count > t; line of a counted node"))
    for q in range(10):
        for t in ((1,) if tier == "quick" else (0, 1, 2, 3)):
            obs.append(Ob("C08.compare_ops", F, "compare_ops", 400, part="%d,%d" % (q, t), what="comparison symbol and threshold (partition) incl. chained comparisons: find_operation count == operator nodes in CPython's tree"))
    for u in (range(4) if tier == "thorough" else (0, 2)):
        obs.append(Ob("C08.bin_ops", F, "bin_ops", 300, part=str(u), what="binary/boolean/unary symbols, nested or flat"))
    ts = (0,) if tier == "quick" else (0, 1, 2)
    for q in range(9):
        for t in ts:
            obs.append(Ob("C08.literals", F, "literals", 300, part="%d,%d" % (q, t), what="ensure_literal/prevent_literal: occurrence = constant of the same type and equal value"))
    obs.append(Ob("C08.literal_types", F, "literal_types", 400, what="ensure/prevent_literal_type for int, float, str, bool"))
    ks = range(16) if tier == "thorough" else (0, 3, 5, 8, 11, 15)
    for k in ks:
        obs.append(Ob("C08.asts_imports", F, "asts_imports", 300, part=str(k), what="ensure/prevent_ast for a node kind (partition) and ensure/prevent_import"))
    for part in (("0,1,0", "1,1,0", "1,0,1", "1,1,1", "0,0,1") if tier == "quick" else ["%d,%d,%d" % (b, f, v) for b in (0, 1) for f in (0, 1) for v in (0, 1)]):
        obs.append(Ob("C08.default_root", F, "default_root", 400, part=part, what="history on one report: (verify,) default check, then a helper parses other code - valid or NOT PARSABLE - via student_code=, then ensure_ast / prevent_ast / find_operation without root= still describe the submission (partition = other code bad, checked before, verified first)"))
    obs.append(Ob("C08.literal_kinds", F, "literal_kinds", 200, what="complex and bytes literals (query and program constants from a menu incl. 1j/2j, b'a'/b'zzz'): ensure_literal / prevent_literal count constants of the same type and equal value"))
    obs.append(Ob("C08.calls_reach", F, "calls_reach", 60, expect="refute", what="twin: prevent_function_call fires"))
    return obs
