import z3

from engine.runner import Ob, ZOb
from engine.smt import Interp, SymNum, solve, Unsupported

K = "harness/C07_kernels.py"
P = "harness/C07_public.py"
EXPLANATION = (
    "Three layers. (1) Relation kernels: condition() of each runtime assertion class is called on operands wrapped by pedal's "
    "own SandboxedValue with UNBOUNDED symbolic operands (two IEEE doubles, two integers, strings, lists, scalars of mixed "
    "kind); CrossHair confirms over all paths that the assertion is silent exactly when the Python relation holds, that an "
    "assertion and its negation never agree, and the symmetry / reflexivity / container-recursion laws of equality_test. "
    "Because z3 cannot decide mixed int/float floating-point arithmetic in reach, the float tolerance is decided twice: "
    "(E2) equality_test is translated from its AST into a z3 term over operands (kind: int|float, value: Real) and delta > 0, "
    "and symmetry, |a-b| < delta => equal, |a-b| > delta => not equal, exactness on two ints are shown unsat-negated for ALL "
    "real values; and on IEEE doubles for a 14-value grid next to the default delta at small and large magnitude x small "
    "ints, both orders, raw and nested in a list. (2) Public calls assert_x(left, right, report=r) for 12 relations + 4 "
    "unary assertions with each operand raw or the proxied result of calling student code (proxied calls run untraced on "
    "concrete values: CrossHair's isinstance/len interception diverges on pedal's class-spoofing proxy), error operands for 16 "
    "assertion forms, the documented presentation keywords, relations that raise. (3) unit_test() on a real student function "
    "with 1-3 cases passing or failing as chosen by symbolic bools.")
FUNCTIONS = ["pedal.assertions.runtime.assert_*.condition (30 classes)", "pedal.utilities.comparisons.equality_test/_are_sequences_equal/_are_sets_equal/_normalize_string",
             "pedal.assertions.feedbacks.RuntimeAssertionFeedback.__init__/SandboxedValue/InterpolatedValue/assert_group", "pedal.assertions.commands.unit_test",
             "pedal.sandbox.result.SandboxResult (operator forwarding, via concrete untraced runs)"]
BOUNDS = {"kernels": "unbounded ints and doubles (NaN excluded), strings <= 2-3 chars, lists <= 2-3 elements, dict with one entry",
          "tolerance": "all reals (E2); IEEE: 14-value grid x 8 small ints x both orders x nested/raw",
          "string normalisation": "12-string menu (str.lower/translate on symbolic text does not terminate in reach)",
          "public calls": "values in {-1,0,1}, 4 small lists, every raw/proxy combination", "unit_test": "1..3 cases"}
OUTSIDE = ["NaN operands (a complement-operator implementation differs from the negated relation only on NaN)", "output assertions with exact_strings=False; type names given as strings; regex on symbolic text (menus only)",
           "sets and dataclasses in equality_test", "assert_has_attr / has_variable / has_function", "message texts"]
ASSUMPTIONS = ["floats in CrossHair are IEEE doubles; mixed int/float arithmetic is decided over the reals (E2) and on a concrete grid",
               "calls with a proxied operand execute untraced (concrete values only)", "exec of the (concrete) student function in unit_tests runs untraced",
               "FeedbackFieldWrapper copy-safety shim"]


def _translate():
    from pedal.utilities.comparisons import equality_test
    a, b = SymNum("a"), SymNum("b")
    delta = z3.Real("delta")
    out = Interp().call(equality_test, [a, b, False, delta])
    swapped = Interp().call(equality_test, [b, a, False, delta])
    return equality_test, a, b, delta, out, swapped


def _concrete(model, x):
    v = model.eval(x.val, model_completion=True)
    f = float(v.as_fraction())
    return f if z3.is_true(model.eval(x.is_float, model_completion=True)) else int(round(f))


def smt_equality():
    eq, a, b, delta, out, swapped = _translate()
    # translator validation on concrete operands (real function vs term)
    for (x, y, d) in [(1, 1.0005, .001), (1.0005, 1, .001), (1, 2, .001), (2.5, 2.5, .001), (3, 3, .001), (0, -0.0005, .001),
                      (12345678.905, 12345678.9, .001), (1, 1.002, .001)]:
        sub = [(a.is_float, z3.BoolVal(isinstance(x, float))), (a.val, z3.RealVal(repr(x))),
               (b.is_float, z3.BoolVal(isinstance(y, float))), (b.val, z3.RealVal(repr(y))), (delta, z3.RealVal(repr(d)))]
        got = z3.is_true(z3.simplify(z3.substitute(out, *sub)))
        if got != eq(x, y, False, d):
            return {"status": "unsupported", "detail": "translator disagrees with equality_test on %r" % ((x, y, d),)}
    d = z3.If(a.val - b.val >= 0, a.val - b.val, b.val - a.val)
    anyf = z3.Or(a.is_float, b.is_float)
    cells = [("symmetric in its arguments", [delta > 0, out != swapped]),
             ("|a-b| < delta => equal when a float is involved", [delta > 0, anyf, d < delta, z3.Not(out)]),
             ("|a-b| > delta => not equal when a float is involved", [delta > 0, anyf, d > delta, out]),
             ("two ints: equal iff ==", [delta > 0, z3.Not(anyf), out != (a.val == b.val)])]
    q, secs = 0, 0.0
    for name, cs in cells:
        r = solve(cs)
        q += 1
        secs += r["seconds"]
        if r["status"] == "sat":
            m = r["model"]
            x, y = _concrete(m, a), _concrete(m, b)
            dv = float(m.eval(delta, model_completion=True).as_fraction())
            e1, e2 = eq(x, y, False, dv), eq(y, x, False, dv)
            if name.startswith("symmetric"):
                bad = e1 != e2
            elif "<" in name:
                bad = abs(x - y) < dv and not e1
            elif ">" in name:
                bad = abs(x - y) > dv and e1
            else:
                bad = e1 != (x == y)
            return {"status": "sat", "queries": q, "seconds": secs, "replayed": bool(bad),
                    "model_text": "%s violated by equality_test(%r, %r, False, %r) = %s (swapped: %s)" % (name, x, y, dv, e1, e2)}
        if r["status"] != "unsat":
            return {"status": "unknown", "queries": q, "seconds": secs, "detail": r.get("detail")}
    return {"status": "unsat", "queries": q, "seconds": round(secs, 3)}


def smt_equality_reach():
    eq, a, b, delta, out, swapped = _translate()
    r = solve([delta > 0, a.is_float, z3.Not(b.is_float), out, a.val != b.val])
    if r["status"] == "sat":
        r["model_text"] = "a=%r b=%r" % (_concrete(r["model"], a), _concrete(r["model"], b))
        del r["model"]
    return r


def smt_obligations(tier):
    return [ZOb("C07.smt_equality", smt_equality, "equality_test on int|float operands over the reals, any delta > 0: symmetric; within tolerance => equal; beyond => not equal; two ints exact"),
            ZOb("C07.smt_equality_reach", smt_equality_reach, "twin: a float equals a different int within the tolerance", expect="sat")]

CANARIES = {'harness/C07_output.py': 'stub_canary()'}   # harness file -> native call that must return True, else its stubs are dead


def obligations(tier):
    obs = []
    kern = [("order_ff", "ordering assertions on two doubles"), ("order_ii", "ordering assertions on two unbounded ints"),
            ("order_mixed", "ordering on small int x float grid, both orders"), ("order_str", "ordering on strings"),
            ("eq_int", "equality on unbounded ints"), ("eq_scalar", "equality across scalar kinds: symmetric, complementary, kinds never mix"),
            ("eq_seq", "list/tuple recursion"), ("eq_dict", "dict recursion"), ("eq_str_norm", "string normalisation symmetric/reflexive/canonical"),
            ("member_list", "in / not in / contains_subset on lists"), ("member_str", "in / not in on strings"),
            ("truth_none", "assert_true/false/is_none/is_not_none"), ("length", "six assert_length_* classes"),
            ("identity", "assert_is / assert_is_not"), ("instance", "assert_is_instance / not_is_instance")]
    for f, w in kern:
        obs.append(Ob("C07." + f, K, f, 200, what=w + ": silent exactly when the Python relation holds; negations complementary"))
    for part in ("0,0", "0,1", "1,0", "1,1", "0,2", "1,2", "0,3", "0,4"):
        obs.append(Ob("C07.eq_grid", K, "eq_grid", 300, part=part, what="IEEE tolerance grid (left operand float|int; raw / in a list / dict value / dict in a list / tuple in a dict): equal iff |a-b| < delta, both orders, assert_equal/not_equal agree"))
    obs.append(Ob("C07.eq_special", K, "eq_special", 200, what="inf / -inf / 1e308 and delta=None (documented as the default delta): equal iff a == b or |a-b| < .001, both orders, raw / list / dict value"))
    obs.append(Ob("C07.eq_sets", K, "eq_sets", 200, what="sets / frozensets of floats next to the tolerance (all pairs of subsets of a 4-element grid): verdict independent of the argument order; equal sets equal; an element without a partner => not equal"))
    obs.append(Ob("C07.order_reach", K, "order_reach", 60, expect="refute", what="twin: assert_less fails for some doubles"))
    for k in range(12):
        obs.append(Ob("C07.public_rel", P, "public_rel", 120, part=str(k), what="public assert call, raw/proxied operands: truthy and recorded as triggered exactly when the relation does not hold"))
    obs.append(Ob("C07.public_lazy", P, "public_lazy", 200, what="one-shot lazy results (map/filter/zip/generator/reversed/enumerate/iterator/range) as an operand of assert_equal / assert_not_equal, raw or proxied, either side: verdict = relation between the items and the expected list"))
    obs.append(Ob("C07.public_unary", P, "public_unary", 120, what="assert_true/false/is_none/is_not_none, raw/proxied"))
    obs.append(Ob("C07.public_error", P, "public_error", 120, what="an error operand makes each of 16 assertion forms fail"))
    obs.append(Ob("C07.public_kwargs", P, "public_kwargs", 120, what="explanation=/context=/assertion= do not change the verdict"))
    obs.append(Ob("C07.public_unevaluable", P, "public_unevaluable", 120, what="a relation that raises counts as not holding (assertion fails, nothing propagates)"))
    obs.append(Ob("C07.unit_tests", P, "unit_tests", 300, what="unit_test succeeds iff all cases pass; success_count/failure_count are the true counts"))
    O = "harness/C07_output.py"
    obs.append(Ob("C07.output_exact", O, "output_exact", 300, what="assert_output / not_output / output_contains / not_output_contains (exact_strings=True) on a sandbox whose stubbed program printed a symbolic text and possibly failed"))
    obs.append(Ob("C07.regex_menu", O, "regex_menu", 200, what="assert_regex / not_regex / output_regex / not_output_regex vs re.search on 8 patterns x 10 texts"))
    obs.append(Ob("C07.type_menu", P, "type_menu", 200, what="assert_type / assert_not_type on 10 values x 9 types (unsettled cells skipped); never both pass or both fail"))
    obs.append(Ob("C07.public_reach", P, "public_reach", 60, expect="refute", what="twin: a proxied operand makes assert_less fail"))
    return obs
