import z3

from engine.runner import Ob, ZOb
from engine.smt import Interp, OptStr, solve, model_optstr

F = "harness/C09_tifa_flow.py"
EXPLANATION = (
    "TIFA's flow analysis is a per-variable three-valued abstract interpretation, so the 'one step from an arbitrary valid "
    "state' recipe applies. (E2) TifaCore.match_rso is translated from its AST and shown, for all pairs in {yes, no, maybe}, "
    "to be the exact join (yes iff both yes, no iff both no, else maybe). (E1) A Tifa instance is reset and the abstract "
    "state of variable x is planted with SYMBOLIC components (present?, set, read as z3 strings constrained to the three "
    "values; only states a real history can reach); the real Tifa.visit then runs a statement block from a family of 7 "
    "shapes (sequence, if, if/else, if/elif/else, nested if, two consecutive ifs, branch with two statements) over 7 atoms "
    "(x = 1, print(x), y = x, x = x + 1, pass, print(c), print(z, x) with z never assigned). A 40-line reference interpreter executes the same block on every "
    "element of the concretisation of the pre-state and every combination of branch outcomes; post: the issues reported "
    "for reads of x (label and line) are exactly 'none / Initialization Problem / Possible Initialization Problem' by "
    "'all / no / some paths assigned', and the abstract post-state equals the abstraction of the resulting set. Since "
    "every construct's transfer is exact from every abstract pre-state, exactness for any nesting of these constructs "
    "follows by structural induction. Loops: the one-sided statement (no missed uninitialised read) for while/for with 0, "
    "1, 2 iterations. A glue obligation runs tifa_analysis on 8 whole programs incl. the unused-variable report.")
FUNCTIONS = ["pedal.tifa.tifa_core.TifaCore.match_rso/combine_states/merge_paths/store_variable/load_variable/search_parents",
             "pedal.tifa.tifa_visitor.Tifa.visit/visit_If/visit_Assign/visit_Name/visit_Call/visit_While/visit_For", "pedal.tifa.contexts.NewPath", "pedal.tifa.tifa_analysis"]
BOUNDS = {"quick": "shapes 0,1 fully; shapes 2,5 for 3 first atoms each; shapes 3,4,6 for 2 atom pairs each; loops; 8 whole programs",
          "thorough": "all 7 shapes x all atom tuples (up to 4 atoms from 6), every reachable abstract pre-state"}
OUTSIDE = ["'over' / overwritten-variable diagnoses", "type-change issues", "comprehensions, classes, try/except, functions with parameters / return values / recursion",
           "blocks deeper than nesting 2 (covered by the induction argument, not by a run)", "unused-variable reporting from arbitrary pre-states (only the 8 whole programs)"]
ASSUMPTIONS = ["semi-internal entry: name_map is planted and Tifa.visit called per statement (as process_ast does after reset)",
               "branch conditions are independent (every combination of outcomes is a path)", "FeedbackFieldWrapper copy-safety shim"]


def smt_match_rso():
    from pedal.tifa.tifa_core import TifaCore
    l, r = z3.String("l"), z3.String("r")
    L, R = OptStr(z3.BoolVal(False), l), OptStr(z3.BoolVal(False), r)
    out = Interp().call(TifaCore.match_rso, [L, R])
    dom = lambda v: z3.Or(v == "yes", v == "no", v == "maybe")
    want = z3.If(z3.And(l == "yes", r == "yes"), z3.StringVal("yes"),
                 z3.If(z3.And(l == "no", r == "no"), z3.StringVal("no"), z3.StringVal("maybe")))
    for a in ("yes", "no", "maybe"):
        for b in ("yes", "no", "maybe"):
            got = z3.simplify(z3.substitute(out.s, (l, z3.StringVal(a)), (r, z3.StringVal(b)))).as_string()
            if got != TifaCore.match_rso(a, b):
                return {"status": "unsupported", "detail": "translator disagrees at %r" % ((a, b),)}
    res = solve([dom(l), dom(r), z3.Or(out.is_none, out.s != want)])
    if res["status"] == "sat":
        a, b = res["model"].eval(l).as_string(), res["model"].eval(r).as_string()
        real = TifaCore.match_rso(a, b)
        exp = a if a == b else "maybe"
        return {"status": "sat", "queries": 1, "seconds": res["seconds"], "replayed": real != exp,
                "model_text": "match_rso(%r, %r) = %r, exact join is %r" % (a, b, real, exp)}
    return {"status": res["status"], "queries": 1, "seconds": res["seconds"], "detail": res.get("detail")}


def smt_obligations(tier):
    return [ZOb("C09.smt_match_rso", smt_match_rso, "match_rso is the exact three-valued join for all pairs")]


def obligations(tier):
    w = "issues for reads of x (label, line) and abstract post-state equal the path-set reference, from every reachable abstract pre-state"
    obs = [Ob("C09.step2", F, "step2", 300, part=str(k), what=w + " (2-atom blocks)") for k in (0, 1)]
    if tier == "quick":
        p3 = ["2,0", "2,1", "2,6", "5,0", "5,1", "5,3"]
        p4 = ["3,0,1", "4,1,0", "6,0,1", "6,6,3"]
    else:
        p3 = ["%d,%d" % (s, a) for s in (2, 5) for a in range(7)]
        p4 = ["%d,%d,%d" % (s, a, b) for s in (3, 4, 6) for a in range(7) for b in range(7)]
    obs += [Ob("C09.step3", F, "step3", 400, part=p, what=w + " (3-atom blocks)") for p in p3]
    obs += [Ob("C09.step4", F, "step4", 500, part=p, what=w + " (4-atom blocks)") for p in p4]
    for k in (0, 1, 2, 3):
        obs.append(Ob("C09.loops", F, "loops", 400, part=str(k), what="while (0) / for (1; 2, 3: the iterated list is assigned by the program, empty on one branch only) with 0, 1, 2 iterations: no read that is unassigned on some execution goes unreported"))
    cparts = ["0,0,1", "0,4,6", "1,0,2"] if tier == "quick" else ["%d,%d,%d" % (a, b, d) for a in range(4) for b in range(7) for d in range(7)]
    for cp in cparts:
        obs.append(Ob("C09.calls", F, "calls", 600, part=cp, what="def f(): A / if c: B; f() else: C; f() / D -- no read of the module-level x (inside f at either call, or outside) that is unassigned on some execution goes unreported"))
    obs.append(Ob("C09.whole_program", F, "whole_program", 120, what="tifa_analysis on 8 whole programs: initialization issues and unused-variable report"))
    obs.append(Ob("C09.step_reach", F, "step_reach", 60, expect="refute", what="twin: a Possible Initialization Problem is produced"))
    return obs
