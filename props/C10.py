from engine.runner import Ob

F = "harness/C10_cait_sound.py"
EXPLANATION = (
    "CrossHair/z3 over pedal's real StretchyTreeMatcher.find_matches. Patterns are concrete instructor strings (63 pattern x "
    "shape pairs over 14 student shapes: assignment with +, *, -, augmented assignment, if/else, for, call, method call, "
    "while, three statements, def/return; with _var_, __expr__, ___ placeholders, operand swaps, multi-statement patterns) "
    "and the student tree is built with ast constructors whose LEAVES ARE SYMBOLIC: three identifiers (strings <= 2 chars, "
    "any unicode) and two constants typed int|bool|float|str|None. For every AstMap returned an independent witness checker "
    "(written from the property text) walks .mappings: same node kind, every primitive field equal in type and value, "
    "mapped children direct children of the partner in increasing sibling order (+ and * may swap), each _var_ bound to one "
    "identifier, each __expr__ bound to the node at its position; and if a concrete identifier/constant of the pattern "
    "occurs nowhere among the symbolic leaves the result must be empty. A second family checks identifiers at the boundary "
    "of the placeholder syntax (_x, _a_b, __x, ___y, ...), which are concrete code. 'Confirmed over all paths' covers all "
    "leaf coincidences (equal names, equal constants of different type, ...).")
FUNCTIONS = ["pedal.cait.stretchy_tree_matching.StretchyTreeMatcher.find_matches/any_node_match/deep_find_match_*/shallow_match_*/map_merge",
             "pedal.cait.ast_map.AstMap", "pedal.cait.cait_node.CaitNode"]
BOUNDS = {"quick": "39 of the 63 pattern x shape pairs + 11 boundary identifiers + 10 sub-matching pairs", "thorough": "all 63 pairs (57..62 also with symbolic constants) + 11 boundary identifiers + 10 sub-matching pairs",
          "leaves": "3 identifiers <= 2 chars (any unicode), 2 constants int|bool|float|str|None"}
OUTSIDE = ["student shapes beyond the 14 listed (depth <= 3, <= 4 statements / 4 call arguments)", "class definitions", "patterns longer than 3 statements",
           "`pass` in a pattern is treated as 'any statement' (pedal's documented/tested behaviour)"]
ASSUMPTIONS = ["student trees built with ast constructors stand for the programs CPython would parse to them", "FeedbackFieldWrapper copy-safety shim"]

QUICK = [0, 1, 3, 4, 6, 8, 9, 13, 15, 16, 17, 19, 20, 23, 25, 28, 29, 30, 32, 33, 35, 36, 38, 41, 42, 43, 44, 45, 46, 48, 49, 54, 55, 57, 58, 59, 60, 61, 62]


def obligations(tier):
    ks = QUICK if tier == "quick" else range(63)
    obs = [Ob("C10.sound", F, "sound", 400 if tier == "quick" else 1200, part=str(k), what="every returned match passes the witness checker; no match when the pattern's concrete content is absent (pattern/shape pair = partition)") for k in ks if k < 57]
    obs += [Ob("C10.sound_names", F, "sound_names", 400 if tier == "quick" else 1200, part=str(k), what="the same for the four-sibling / four-argument shapes (constant-free patterns; identifiers symbolic, constants concrete): a candidate rejected for a _name_ conflict must not disturb the sibling order") for k in ks if k >= 57]
    if tier == "thorough":
        obs += [Ob("C10.sound", F, "sound", 1800, part=str(k), what="pairs 57.. with symbolic constants as well") for k in range(57, 63)]
    for k in range(11):
        obs.append(Ob("C10.ident_boundary", F, "ident_boundary", 100, part=str(k), what="a near-placeholder identifier is concrete code: matches exactly programs using that identifier"))
    for k in range(10):
        obs.append(Ob("C10.sub_sound", F, "sub_sound", 300, part=str(k), what="sub-matching that inherits an earlier match (match['__e__'].find_matches(inner)): one identifier per _name_ across outer and inner match"))
    obs.append(Ob("C10.const_kinds", F, "const_kinds", 200, what="constants of every kind (complex, bytes, Ellipsis, int, float, bool, str, None; 12 x 12 menu, statement or call argument): a constant pattern matches exactly the constant of the same type and equal value"))
    obs.append(Ob("C10.class_conflict", F, "class_conflict", 200, what="a _name_ placeholder used as class name and again as function / variable name (symbolic identifiers): matches exactly when both are the same identifier"))
    obs.append(Ob("C10.sound_reach", F, "sound_reach", 60, expect="refute", what="twin: `_a_ = _a_ + 1` matches for suitable leaves"))
    return obs
