from engine.runner import Ob

F = "harness/C11_cait_complete.py"
EXPLANATION = (
    "The pattern must be source text, so nothing about the pattern can stay symbolic: here the solver's role is to ENUMERATE, "
    "path by path and with a completeness verdict ('Confirmed over all paths' = no further feasible choice), a finite grid: "
    "18 student templates (assignment with +, *, -; augmented assignment; if/else; for; call; method call; while; 3- and "
    "4-statement programs; def/return; list/subscript; try/except/finally; nested def/for/if/return; repeated calls; match/case; dunder attributes) x identifiers from {a, b, ab} in each of three slots (so all "
    "coincidences of variables) x constants from {0, 1, 2, 's'} x 10 derivation kinds (whole program; one statement; ___ for "
    "a sub-expression; __e__ for a sub-expression; _v_ for every occurrence of one identifier; a sibling statement dropped; "
    "_v_ and ___ combined; a statement dropped + _v_ + ___ for every constant (+ ___ for another name); a statement dropped + _v_ + every other identifier by its own placeholder + ___ for every constant) x up to 16 positions. For each choice the pattern is derived from a fresh parse of the student "
    "program with ast transformers + ast.unparse and the real find_matches runs (untraced, all values are concrete on the "
    "path). Oracle: at least one match; some match binds _v_ (symbol or function table) to the replaced identifier, or "
    "__e__ to the node at the replaced position.")
FUNCTIONS = ["pedal.cait.stretchy_tree_matching.StretchyTreeMatcher (find_matches, any_node_match, deep_find_match_*, map_merge)",
             "pedal.cait.ast_map.AstMap (symbol/function/expression tables)", "pedal.cait.cait_node.CaitNode"]
BOUNDS = {"quick": "11 templates x 5-7 derivation kinds each, constants from {0, 1}", "thorough": "18 templates x 10 derivation kinds, constants from {0, 1, 2, 's'}"}
OUTSIDE = ["programs outside the 18 templates", "generalisations other than the 10 listed kinds (e.g. __e__ nested inside a _v_ pattern)", "identifiers beyond the 3-entry menu"]
ASSUMPTIONS = ["finite grid enumerated by the solver; the matcher itself runs on concrete values (untraced)", "FeedbackFieldWrapper copy-safety shim"]


def obligations(tier):
    obs = []
    w = "pattern derived from the student's own program (template t, derivation d) is found, and a match binds the placeholder to what it replaced"
    if tier == "quick":
        for t in (0, 4, 5, 9, 11, 12, 13, 14, 15, 16, 17):
            for d in {9: (2, 3, 4, 5, 6, 7, 8), 11: (2, 3, 4, 5, 6, 7, 8), 13: (1, 2, 3, 4, 5, 6), 14: (1, 2, 3, 4, 6),
                      15: (2, 3, 4, 5, 6, 9), 16: (1, 2, 3, 4, 6), 17: (0, 1, 2, 4, 5, 6)}.get(t, (2, 3, 4, 5, 6)):
                obs.append(Ob("C11.derive", F, "derive", 200, part="%d,%d,q" % (t, d), what=w))
    else:
        for t in range(18):
            for d in range(10):
                obs.append(Ob("C11.derive", F, "derive", 600, part="%d,%d" % (t, d), what=w))
    for t, d in ((5, 0), (6, 1), (11, 5), (13, 1), (14, 1), (9, 4)) if tier == "quick" else [(t, d) for t in (4, 5, 6, 8, 9, 10, 11, 13, 14, 15, 16, 17) for d in (0, 1, 4, 5)]:
        obs.append(Ob("C11.derive", F, "derive", 300, part="%d,%d,q,s" % (t, d), what=w + " - after other searches (sub-searches on single statements, a whole-program search) already ran on the same parsed program"))
    obs.append(Ob("C11.derive_text", F, "derive_text", 200, what="patterns cut from the program TEXT (whole file / a statement's source segment) through the public find_matches on the report: programs with multi-line strings, docstrings, continuation lines, comments, tabs, `;` - found, also when asked twice"))
    obs.append(Ob("C11.derive_reach", F, "derive_reach", 60, expect="refute", what="twin: a _v_ generalisation matches"))
    return obs
