import ast
import itertools
import json
import warnings

from engine.runner import Ob

F = "harness/C12_verify.py"
EXPLANATION = (
    "verify() delegates acceptance to ast.parse, so 'iff CPython rejects' reduces to what verify does with the parser's "
    "answer. The parser call inside pedal.source.source is replaced by a stub that raises SyntaxError / IndentationError / "
    "TabError objects whose lineno/offset/end_lineno/end_offset are SYMBOLIC Optional[int] (z3), constrained to the "
    "attribute shapes CPython really produces -- harvested on every run by parsing a deterministic mutation corpus "
    "(7 seed programs x single-character deletions x 20 special-character insertions incl. NUL, CR, FF, TAB, backslash, "
    "quotes, plus two-character deletions and deep nesting) with the real parser. CrossHair then confirms over all paths "
    "that verify() never raises, returns False with exactly one syntax-category feedback of the right class located on "
    "(reported line + section offset) in location, fields and message text, stores an empty tree, and that on acceptance "
    "it stores the parser's own tree with no syntax feedback (blank text -> blank_source).")
FUNCTIONS = ["pedal.source.source.verify/_ensure_error_position", "pedal.source.feedbacks.syntax_error/indentation_error/blank_source",
             "pedal.utilities.exceptions.ExpandedTraceback.build_traceback/_fix_frame_line/format_traceback", "pedal.core.submission.Submission.set_line_offset"]
BOUNDS = {"quick": "exception class x {1,3}-line file x section offset {0,2}; offsets <= 3, end_offset <= 4, lines within the file",
          "thorough": "exception class x {1,2,3}-line file x section offset {0,1,2}"}
OUTSIDE = ["agreement of CPython's parser with the language (there is no second parser)", "error shapes not produced by the harvest corpus", "real source texts beyond the 44-entry menu of C12.real_sources",
           "files longer than 3 lines / offsets beyond the bounds (values are formatted into the message, which realises them)"]
ASSUMPTIONS = ["parser stub: ast.parse in pedal.source.source either delegates to the real parser or raises an error object within harvested shapes",
               "FeedbackFieldWrapper copy-safety shim"]

SEEDS = ["x = 1\nprint(x)\n", "def f(a):\n    return a + 1\nf(2)\n", "if x:\n    y = [1, 2]\nelse:\n    y = 'a'\n",
         "for i in range(3):\n  print(i)\n", "class A:\n\tdef m(self):\n\t\tpass\n", "s = '''a\nb'''\n", "x = (1 +\n     2)\n"]
SPECIALS = ["\0", "\r", "\x0c", "\t", "\\", "'", '"', "(", ")", ":", " ", "\n", "\u00e9", "$", "?", "=", "'''", "0x", "1_", "\u2028"]


def _cls(v, kind, n):
    if v is None:
        return "None"
    if kind == "line":
        return "<=0" if v <= 0 else ("in" if v <= n else ("n+1" if v == n + 1 else ">n+1"))
    return "-1" if v == -1 else ("0" if v == 0 else (">0" if v > 0 else "<-1"))


def harvest():
    shapes = {}

    def tryit(src):
        try:
            with warnings.catch_warnings():
                warnings.simplefilter("ignore")
                ast.parse(src, "answer.py")
        except SyntaxError as e:
            n = src.count("\n") + 1
            sh = (_cls(e.lineno, "line", n), _cls(e.offset, "off", n), _cls(getattr(e, "end_lineno", None), "line", n),
                  _cls(getattr(e, "end_offset", None), "off", n))
            shapes.setdefault(sh, src)
        except Exception:
            pass
    for s in SEEDS:
        for i in range(len(s) + 1):
            tryit(s[:i] + s[i + 1:])
            for sp in SPECIALS:
                tryit(s[:i] + sp + s[i:])
        for i, j in itertools.combinations(range(0, len(s), 3), 2):
            tryit(s[:i] + s[i + 1:j] + s[j + 1:])
    for extra in ["(" * 300, "\0", "x=1\0", " x", "\tx\n        y", "if x:\n\ty\n        z\n", "s='''a\nb\n", "x = (\n\n"]:
        tryit(extra)
    return shapes

CANARIES = {'harness/C12_verify.py': 'stub_canary()'}   # harness file -> native call that must return True, else its stubs are dead


def obligations(tier):
    shapes = harvest()
    env = {"VERIF_SHAPES": json.dumps(sorted(shapes))}
    global BOUNDS
    BOUNDS = dict(BOUNDS, harvested_shapes={"/".join(k): repr(v)[:60] for k, v in shapes.items()})
    w = "parser raises (symbolic position within harvested shapes): verify returns False, never raises, one syntax feedback of the right class on line = reported line + section offset (location, fields, message), empty tree stored"
    obs = []
    nfiles = (0, 2) if tier == "quick" else (0, 1, 2)
    offs = (0, 2) if tier == "quick" else (0, 1, 2)
    for k in range(3):
        for n in nfiles:
            for o in offs:
                obs.append(Ob("C12.rejects", F, "rejects", 400, part="%d,%d,%d" % (k, n, o), what=w, env=env))
    obs.append(Ob("C12.accepts", F, "accepts", 120, env=env, what="parser accepts: no syntax feedback, stored tree is the parser's object; blank text -> exactly blank_source"))
    obs.append(Ob("C12.refuses", F, "refuses", 200, env=env, what="the parser refuses the text without a SyntaxError (UnicodeEncodeError at a symbolic position, RecursionError, ValueError, MemoryError): verify() returns False without raising, one triggered syntax feedback on a line of the file, empty tree"))
    obs.append(Ob("C12.real_sources", F, "real_sources", 200, env=env, what="44 concrete sources (incl. lone surrogates, 3000-deep expressions, a 100000-fold unary minus, CR-only texts) through the REAL parser (stub bypassed; menu enumerated by the solver, bodies untraced): verify agrees with ast.parse on accept/reject, line (+ offset) and stored tree; never raises"))
    obs.append(Ob("C12.explicit_file", F, "explicit_file", 200, env=env, what="the same 44 texts through verify(code, filename='other.py', report=r) with a different valid main file in r: never raises, same verdict / line / tree as ast.parse"))
    obs.append(Ob("C12.rejects_reach", F, "rejects_reach", 60, expect="refute", env=env, what="twin: a syntax feedback on a shifted line is produced"))
    return obs
