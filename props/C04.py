from engine.runner import Ob

F = "harness/C04_contain.py"
EXPLANATION = (
    "Same exec stub as C05: the student program is (symbolic printed text, termination object from a menu of 10 handled "
    "classes: normal, ValueError, KeyError, user Exception subclass, exceptions with raising __str__ / __repr__, "
    "RecursionError, SystemExit(3), SystemExit(), ZeroDivisionError). CrossHair runs the real run()/call()/evaluate() -- "
    "unthreaded with symbolic text, and threaded=True (pedal's real worker thread, stub returns at once) with concrete "
    "text -- and confirms over all paths that the entry point returns normally, sandbox.exception is the raised object "
    "(KeyError in pedal's improved form), exactly one new feedback exists, it is runtime-category, triggered, of the class "
    "mapped for that exception, and carries the exception. A second obligation compiles real non-compiling sources "
    "(incl. a NUL byte, whose SyntaxError has no position) through the real compile().")
FUNCTIONS = ["pedal.sandbox.sandbox.Sandbox._execute/_execute_with_timeout/_capture_exception/run/call/evaluate/_handle_result",
             "pedal.sandbox.timeout.timeout", "pedal.sandbox.feedbacks.runtime_error + EXCEPTION_FF_MAP",
             "pedal.utilities.exceptions.ExpandedTraceback/improve_builtin_exceptions"]
BOUNDS = {"terminations": "10-entry menu", "entry points": "run, call, evaluate; threaded and not", "text": "<= 1 char (any unicode) unthreaded; 'x' threaded",
          "compile failures": "5 concrete sources", "locations": "8 concrete programs x run/call", "stream": "the stubbed program may close the stdout it was given (real StringIO, concrete text)"}
OUTSIDE = ["which programs produce which termination; student-line locations beyond the 16-program menu of C04.locate",
           "blocked open/import name filters beyond the concrete programs of C04.real_programs", "time-limit violations (C14)", "tracer styles", "imports nested more than one level"]
ASSUMPTIONS = ["exec stub as described", "_start_patches/_stop_patches run untraced", "result_proxy_class = None",
               "threaded obligations: the worker thread runs untraced (concrete values only cross the thread boundary)"]

CANARIES = {'harness/C04_contain.py': 'stub_canary()'}   # harness file -> native call that must return True, else its stubs are dead


def obligations(tier):
    w = "entry point returns normally; sandbox.exception is the raised object; exactly one triggered runtime feedback of the mapped class (none for a normal end)"
    obs = [Ob("C04.contain1", F, "contain1", 300, part=str(e), what=w) for e in range(3)]
    obs.append(Ob("C04.contain_threaded", F, "contain_threaded", 300, what=w + " (threaded=True)"))
    obs.append(Ob("C04.compile_fail", F, "compile_fail", 120, what="non-compiling student file: run() returns, SyntaxError recorded, one runtime feedback"))
    obs.append(Ob("C04.locate", "harness/C04_locate.py", "locate", 120, what="16 concrete failing programs (real exec, untraced; solver enumerates the menu; incl. failures raised inside or through library frames and files that do not compile): the runtime feedback's line is the line CPython's traceback gives for the innermost student frame (or the SyntaxError names), through run() and call()"))
    obs.append(Ob("C04.odd_exceptions", "harness/C04_locate.py", "odd_exceptions", 120, what="12 programs raising unusual exception objects (frozen dataclass, refusing __setattr__, KeyError subclass, two-argument constructor, container arguments, __slots__, metaclass, bare class, nameless class, lower-case name, nested class, bare Exception) through run() and call(): contained, one runtime feedback, located on the raising line"))
    obs.append(Ob("C04.multi_file", "harness/C04_locate.py", "multi_file", 200, what="two-file submissions (answer.py imports a helper that fails on import, menu of 4 helpers): run once or twice, import at module level or inside a called function, optionally a guarded import first - every execution that reaches the failing import reports it (exception + exactly one new runtime feedback), also the second time"))
    obs.append(Ob("C04.real_programs", "harness/C04_locate.py", "real_programs", 200, what="16 concrete programs through the real exec (blocked compile/eval/exec/globals/exit, import pedal, open outside the sandbox, sys.exit, raise SystemExit, unbounded recursion, broken __str__/__repr__, closed stdout, compile failures): run()/evaluate() return normally, one runtime feedback, exception recorded"))
    obs.append(Ob("C04.contain_reach", F, "contain_reach", 60, expect="refute", what="twin: a runtime feedback is produced"))
    return obs
