import z3

from engine.runner import Ob, ZOb
from engine import smt
from engine.smt import Interp, solve

F = "harness/C17_sections.py"
EXPLANATION = (
    "(E2) _calculate_section_number is translated from its AST into a z3 term and shown equal to (i+1) div 2 for every "
    "integer i >= 0 (the code goes through a float: int((i+1)/2); the encoding is over the reals, exact for i < 2^53 where "
    "halving is exact in binary floating point), and the 'found' bound used by next_section is shown to be the number of the "
    "last chunk for every odd list length. (E1) re.split inside pedal.source.sections is stubbed to return SYMBOLIC parts "
    "[c0, m1, c1(, m2, c2)] of any unicode content whose concatenation is the submission; CrossHair runs the real "
    "separate_into_sections / next_section x k / verify / stop_sections / resolve and confirms over all paths: section text "
    "is the k-th chunk (independent) or the prefix (cumulative), the line offset equals the number of newlines before the "
    "section, one step or more past the end attaches exactly one not_enough_sections per step and raises nothing, a syntax "
    "error raised by the parser stub is located at local line + offset in location and traceback text, and after "
    "stop_sections()/resolve the main code is the original text and the substitution stack is empty. The default pattern's "
    "shape (anchored, one group spanning the match) is checked on the parsed pattern.")
FUNCTIONS = ["pedal.source.sections._calculate_section_number/separate_into_sections/next_section/stop_sections/stop_any_sections",
             "pedal.core.submission.Submission.replace_main/set_line_offset", "pedal.source.source.verify", "pedal.resolvers.core.make_resolver",
             "pedal.source.feedbacks.not_enough_sections/syntax_error"]
BOUNDS = {"quick": {"walk3": "3 parts, each <= 1 char of any unicode; independent/cumulative x 0..3 next_section calls; finish by stop or resolve",
                    "walk3_err": "3 parts from an 8-text menu, error at local line 1..2"},
          "thorough": {"walk3": "parts <= 2 chars", "walk5": "5 parts (two markers), <= 1 char each, 0..4 steps", "walk3_err": "all 8 mode x step partitions"}}
OUTSIDE = ["TIFA and sandbox locations beyond the concrete file menu of C17.tools_in_sections",
           "custom patterns with partial groups (re.split is then not lossless by Python's own contract)", "re.split itself (C code, stubbed by its contract)",
           "set_source(..., independent=...) argument forwarding"]
ASSUMPTIONS = ["re.split stub: odd-length list of arbitrary strings whose concatenation is the input", "parser stub of C12 for the error step",
               "FeedbackFieldWrapper copy-safety shim", "float halving exact below 2^53 (IEEE-754 argument, not solver-checked)"]


def smt_section_number():
    import pedal.source.sections as S
    I = Interp()
    i = z3.Int("i")
    out = I.call(S._calculate_section_number, [i])
    for k in (0, 1, 2, 3, 4, 7, 100):
        got = z3.simplify(z3.substitute(out, (i, z3.IntVal(k))))
        if int(str(got)) != S._calculate_section_number(k):
            return {"status": "unsupported", "detail": "translator disagrees at %d" % k}
    q, secs = 0, 0.0
    r = solve([i >= 0, out != (i + 1) / 2])           # z3 integer division
    q += 1
    secs += r["seconds"]
    if r["status"] == "sat":
        v = r["model"].eval(i).as_long()
        return {"status": "sat", "queries": q, "seconds": secs, "replayed": S._calculate_section_number(v) != (v + 1) // 2,
                "model_text": "i=%d" % v}
    if r["status"] != "unsat":
        return {"status": "unknown", "queries": q, "detail": r.get("detail")}
    # 'found' as used by next_section: for a parts list of odd length n = 2k+1 the last valid section number is k
    k = z3.Int("k")
    import ast, inspect, textwrap
    src = textwrap.dedent(inspect.getsource(S.next_section))
    tree = ast.parse(src)
    found_expr = None
    for node in ast.walk(tree):
        if isinstance(node, ast.Assign) and isinstance(node.targets[0], ast.Name) and node.targets[0].id == "found":
            found_expr = node.value
    if found_expr is None:
        return {"status": "unsupported", "detail": "no assignment to 'found' in next_section"}
    n = 2 * k + 1
    class _Len:  # len(source['sections']) -> n
        pass
    env = {"source": smt.SymObj(items={"sections": smt.SymObj(attrs={"__len__": n})})}
    val = I.expr(found_expr, env, S.next_section.__globals__)
    r = solve([k >= 0, val != k])
    q += 1
    secs += r["seconds"]
    if r["status"] == "sat":
        kv = r["model"].eval(k).as_long()
        return {"status": "sat", "queries": q, "seconds": secs, "replayed": True,
                "model_text": "a file with %d markers (parts list of length %d): 'found' evaluates to %s, last section is %d" % (
                    kv, 2 * kv + 1, r["model"].eval(val), kv)}
    if r["status"] != "unsat":
        return {"status": "unknown", "queries": q, "detail": r.get("detail")}
    return {"status": "unsat", "queries": q, "seconds": round(secs, 3)}


def smt_obligations(tier):
    return [ZOb("C17.smt_section_number", smt_section_number, "_calculate_section_number(i) == (i+1)//2 for all i >= 0; 'found' in next_section == number of the last chunk for every odd parts length")]

CANARIES = {'harness/C17_sections.py': 'stub_canary()'}   # harness file -> native call that must return True, else its stubs are dead


def obligations(tier):
    obs = []
    w = "section k text = k-th chunk / prefix; line offset = newlines before the section; past the end: one not_enough_sections per step, no exception; original text restored by stop_sections()/resolve"
    for ind in (0, 1):
        for steps in range(4):
            obs.append(Ob("C17.walk3", F, "walk3", 300 if tier == "quick" else 900, part="%d,%d" % (ind, steps), what=w))
    we = "syntax error inside the active section is reported at local line + section offset (location and traceback text)"
    eparts = ["1,1", "0,1", "1,0"] if tier == "quick" else ["%d,%d" % (i, s) for i in (0, 1) for s in range(3)]
    for part in eparts:
        obs.append(Ob("C17.walk3_err", F, "walk3_err", 400, part=part, what=we))
    obs.append(Ob("C17.tools_in_sections", F, "tools_in_sections", 200, what="real verify / tifa_analysis / sandbox run inside real sections of concrete files (menu enumerated by the solver, bodies untraced): every reported line (syntax, TIFA issue, runtime location and traceback text) is the statement's line in the original file; both modes"))
    obs.append(Ob("C17.walk_reach", F, "walk_reach", 60, expect="refute", what="twin: a section with line offset 2 is reached"))
    obs.append(Ob("C17.pattern_shape", F, "pattern_shape", 30, what="DEFAULT_SECTION_PATTERN = ^( one group )$ on the parsed pattern"))
    if tier == "thorough":
        for steps in range(5):
            for ind in (0, 1):
                for fin in (0, 1):
                    obs.append(Ob("C17.walk5", F, "walk5", 900, part="%d,%d,%d" % (steps, ind, fin), what=w + " (two markers)"))
    return obs
