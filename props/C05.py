from engine.runner import Ob

F = "harness/C05_restore.py"
EXPLANATION = (
    "The program quantifier cannot be symbolic (compile/exec are C), but what pedal's code observes of a student program is "
    "(text written to the captured stream, how it terminates). `exec` inside pedal.sandbox.sandbox is replaced by a stub "
    "that writes a symbolic string and then returns or raises an object chosen by symbolic bits from a 13-entry menu of "
    "termination classes (normal; ValueError, KeyError, user Exception subclasses incl. broken __str__/__repr__ -- the "
    "latter makes pedal itself fail while recording the failure --, RecursionError, ZeroDivisionError, SystemExit with and "
    "without code; KeyboardInterrupt, GeneratorExit, a direct BaseException subclass). CrossHair runs the real "
    "run()/call()/evaluate() and confirms over all paths that, whether the call returned or raised, sys.stdout and "
    "time.sleep are the pre-call objects, the key set of sys.modules is unchanged, and the sandbox's patch and stdout "
    "stacks are empty; two-step histories additionally show that the next execution captures exactly what it printed. "
    "Trace function: for each tracer style (none / native / calls / coverage) x entry point the solver enumerates termination x "
    "nested execution (none / evaluate on the same sandbox / `import helper` through pedal's import hook) x host trace "
    "function installed or not; the body runs untraced (CrossHair traces through sys.monitoring, so sys.settrace is free) "
    "and sys.gettrace() afterwards must be the object it was before.")
FUNCTIONS = ["pedal.sandbox.sandbox.Sandbox._execute/_start_mocking/_stop_mocking/_start_patches/_stop_patches/_capture_exception",
             "Sandbox.run/call/evaluate", "pedal.sandbox.feedbacks.runtime_error"]
BOUNDS = {"quick": "1 execution: 13 terminations x 3 entry points x text <= 1 char; 2 executions for the 3 BaseException terminations and BadStr x (run,call)",
          "thorough": "2 executions for all 13 terminations x 3 x 3 entry points"}
OUTSIDE = ["timeouts / threaded mode (C14; threads cannot be executed symbolically)",
           "nested imports deeper than one level", "which programs produce which termination",
           "what the tracers record (only that the trace function is put back)"]
ASSUMPTIONS = ["exec stub as described", "_start_patches/_stop_patches run untraced (concrete mock.patch bookkeeping)",
               "result_proxy_class = None", "harness undoes leaked patches at the end of each path",
               "internal-fault stub: pedal.sandbox.sandbox.runtime_error raises RuntimeError when the fault flag is set"]

CANARIES = {'harness/C05_restore.py': 'stub_canary()'}   # harness file -> native call that must return True, else its stubs are dead


def obligations(tier):
    w = "after run/call/evaluate returns or raises: sys.stdout, time.sleep, sys.modules keys as before; _current_patches == [] == _current_stdout"
    obs = [Ob("C05.restore1", F, "restore1", 600, part="%d,%d" % (e, m), what=w + " (also when pedal's own feedback construction fails, the program closed its stdout, or tampered with sys.modules)") for e in range(3) for m in (range(5) if tier != "quick" or e == 0 else ((0, 1) if e == 1 else (0, 4)))]
    for e in range(3):
        for st in range(4):
            obs.append(Ob("C05.restore_trace", F, "restore_trace", 200, part="%d,%d" % (e, st), what="sys.gettrace() after the call is what it was before: tracer style (partition) x termination x nested execution (evaluate / import of another student file) x host trace function present"))
    obs += [
           Ob("C05.restore_reach", F, "restore_reach", 120, expect="refute", what="twin: a BaseException termination propagates out of run()")]
    w2 = w + "; the following normal execution captures exactly its own text"
    if tier == "quick":
        parts = ["%d,%d,%d" % (t, a, b) for t in (10, 11, 12, 4) for (a, b) in ((0, 1), (1, 0))]
    else:
        parts = ["%d,%d,%d" % (t, a, b) for t in range(13) for a in range(3) for b in range(3)]
    for p in parts:
        obs.append(Ob("C05.restore2", F, "restore2", 200, part=p, what=w2))
    return obs
