from engine.runner import Ob

F = "harness/C20_feedback.py"
EXPLANATION = (
    "CrossHair/z3 symbolic execution of pedal's real Feedback constructor / _handle_condition / Report.add_feedback / "
    "add_ignored_feedback, the formatter dispatch in FeedbackFieldWrapper.__format__, and Feedback.override / "
    "Report.clear / contextualize_report. (1) A harness-defined Feedback subclass whose condition outcome (False, True, "
    "raises) and keyword combination (explicit message with an unbounded symbolic string, class template, missing "
    "template, template naming an absent field, else_message, delay_condition, parent group, fields vs extra keywords) "
    "are symbolic; the five core commands pairwise. (2) Rendering of 5 templates through the default and a custom "
    "formatter. (3) Sequences of three override() operations over a base class, a subclass that INHERITS its template, "
    "and an unrelated class, with unbounded symbolic override values, followed by clear_report() or "
    "contextualize_report(). Oracles transcribe the property text. Verdict per obligation: 'Confirmed over all paths' "
    "or a natively replayed counterexample.")
FUNCTIONS = ["pedal.core.feedback.Feedback.__init__/_handle_condition/_get_message/override/_restore_overrides",
             "pedal.core.report.Report.add_feedback/add_ignored_feedback/clear/clear_overridden_feedback",
             "pedal.core.formatting.FeedbackFieldWrapper.__format__/wrap_fields", "pedal.core.commands (5 commands, clear_report, contextualize_report)"]
BOUNDS = {"record": "1 feedback, 3 outcomes x 8 keyword switches, symbolic message string", "commands": "ordered pairs of the 5 core commands x activate",
          "render": "5 templates x 2 formatters x field values from a 4-value menu (formatting realises symbolic text)",
          "overrides": "3 operations from 6 override forms + no-op, 3 classes, then clear or contextualize; symbolic string values"}
OUTSIDE = ["tool feedback classes (TIFA, sandbox, assertions) as makers -- they share the same constructor", "justification templates",
           "override_for_pool / pools", "more than 3 override operations (the restore step is checked from every reachable 3-step state)"]
ASSUMPTIONS = ["FeedbackFieldWrapper copy-safety shim in the harness process", "class attributes are reset by the harness between paths (a leaked override would otherwise poison later paths)"]


def obligations(tier):
    obs = [
        Ob("C20.record", F, "record", 200, what="object recorded exactly once; in report.feedback iff condition held and message rendered; bool(fb) == outcome; raising condition/message -> ignored list, status 'error', exception propagates; group parent notified once; delayed condition recorded only when handled"),
        Ob("C20.commands", F, "commands", 120, what="core commands recorded once, triggered iff activated"),
        Ob("C20.named_parent", F, "named_parent", 120, what="parent given by name / number / an untriggered group: recorded once on the right side, truth value = outcome, no exception unless the condition raised"),
        Ob("C20.logging_commands", F, "logging_commands", 60, what="log()/debug(): the recorded feedback delivers the items it was given"),
        Ob("C20.overrides", F, "overrides", 400, what="after clear_report()/contextualize_report() every class attribute (incl. inherited) has its original value and backups are empty; latest override visible before"),
        Ob("C20.overrides_reach", F, "overrides_reach", 60, expect="refute", what="twin: an override is visible to new instances"),
    ]
    obs.append(Ob("C20.instances", F, "instances", 300, what="two calls of a class that declares constant_fields: each message rendered from its own call's fields; earlier objects and the class constants unchanged"))
    for t in range(6):
        obs.append(Ob("C20.render", F, "render", 200, part=str(t), what="message = explicit message, else template with each field through the formatter method named by its spec"))
    return obs
